package stress

// C10 / C17 with real goroutines (sampling / search support, never a proof): the pacers after a FAILED write of
// the transport below them.  A transient error of the next writer is an ordinary event (a full socket buffer); the
// packet it hit is lost, everything written afterwards must leave the pacer as if nothing had happened.  The
// deterministic correspondence of C17 (`leaky`, class `wfail`) sees the sequential effect; this test adds parallel
// writers, so that bookkeeping that went wrong at the failure (a pooled buffer handed out twice, a queue entry
// shared by two packets) shows as payload bytes of another packet - and as a data race under -race.
//
// For each pacer (gcc.LeakyBucketPacer, gcc.NoOpPacer, the pkg/pacing interceptor) rounds are run until the time
// is up.  In every round the transport fails at chosen calls (always the first call of the round; in every second
// round a few later ones too) while four goroutines, one per stream, write bursts.  Invariants per round:
//   * every packet whose Write returned no error reaches the transport exactly once (the failed attempt counts:
//     the pacer does not retry), nothing else does;
//   * along a stream the packets arrive in the order written;
//   * header and payload at the transport - at a failing call too - are the ones written under that sequence
//     number (every payload byte is a function of stream, sequence number and position; some payloads are larger
//     than the pacer's pooled buffers).

import (
	"errors"
	"fmt"
	"sync"
	"sync/atomic"
	"testing"
	"time"

	"github.com/pion/interceptor"
	"github.com/pion/interceptor/pkg/gcc"
	"github.com/pion/interceptor/pkg/pacing"
	"github.com/pion/rtp"
)

var errTransient = errors.New("transient transport error (injected)")

type pacerUnderTest struct {
	name  string
	write func(s int, h *rtp.Header, p []byte) error
	close func()
	sync  bool // Write returns what the transport returned (no queue)
}

func TestConservePacersAfterFailedWrite(t *testing.T) {
	const streams = 4
	const per = 160

	// the transport: shared by all rounds of one pacer
	type arrival struct {
		seq    int
		intact bool
		failed bool
	}
	var (
		mu       sync.Mutex
		arrived  [streams][]arrival
		calls    int          // transport calls in this round
		failAt   map[int]bool // calls of this round that fail
		injected int
	)
	payLen := func(s, q int) int {
		if q%23 == 5 {
			return 1461 + (q+s)%30 // larger than a pooled buffer of the leaky bucket pacer
		}
		return 200 + (q*37+s*11)%900
	}
	payByte := func(s, q, i int) byte { return byte(q*31 + i*7 + s*101) }
	transport := func(s int) interceptor.RTPWriter {
		return interceptor.RTPWriterFunc(func(h *rtp.Header, p []byte, _ interceptor.Attributes) (int, error) {
			q := int(h.SequenceNumber)
			a := arrival{seq: q, intact: h.SSRC == uint32(s+1) && h.Timestamp == uint32(q)*90 && h.PayloadType == 96 && len(p) == payLen(s, q)}
			for i := range p {
				if p[i] != payByte(s, q, i) {
					a.intact = false
					break
				}
			}
			mu.Lock()
			calls++
			a.failed = failAt[calls]
			if a.failed {
				injected++
			}
			arrived[s] = append(arrived[s], a)
			mu.Unlock()
			if a.failed {
				return 0, errTransient
			}
			return len(p), nil
		})
	}

	mkLeaky := func() pacerUnderTest {
		p := gcc.NewLeakyBucketPacer(400_000_000)
		for s := 0; s < streams; s++ {
			p.AddStream(uint32(s+1), transport(s))
		}
		return pacerUnderTest{name: "gcc.LeakyBucketPacer",
			write: func(_ int, h *rtp.Header, b []byte) error { _, err := p.Write(h, b, nil); return err },
			close: func() { _ = p.Close() }}
	}
	mkNoOp := func() pacerUnderTest {
		p := gcc.NewNoOpPacer()
		for s := 0; s < streams; s++ {
			p.AddStream(uint32(s+1), transport(s))
		}
		return pacerUnderTest{name: "gcc.NoOpPacer", sync: true,
			write: func(_ int, h *rtp.Header, b []byte) error { _, err := p.Write(h, b, nil); return err },
			close: func() { _ = p.Close() }}
	}
	mkPacing := func() pacerUnderTest {
		ic := must(pacing.NewInterceptor(pacing.InitialRate(400_000_000), pacing.Interval(time.Millisecond)).NewInterceptor("c"))
		var ws [streams]interceptor.RTPWriter
		for s := 0; s < streams; s++ {
			ws[s] = ic.BindLocalStream(info(uint32(s+1)), transport(s))
		}
		return pacerUnderTest{name: "pacing.Interceptor",
			write: func(s int, h *rtp.Header, b []byte) error { _, err := ws[s].Write(h, b, interceptor.Attributes{}); return err },
			close: func() { _ = ic.Close() }}
	}

	makers := []func() pacerUnderTest{mkLeaky, mkPacing, mkNoOp}
	share := time.Duration(*fMillis) * time.Millisecond / time.Duration(len(makers))
	rounds, packets := 0, 0
	for _, mk := range makers {
		p := mk()
		deadline := time.Now().Add(share)
		if p.sync {
			deadline = time.Now().Add(share / 4)
		}
		next := 0 // sequence numbers go on from round to round (16-bit wrap included in long runs)
		for r := 0; r == 0 || time.Now().Before(deadline); r++ {
			rounds++
			mu.Lock()
			for s := range arrived {
				arrived[s] = arrived[s][:0]
			}
			calls = 0
			failAt = map[int]bool{1: true}
			if r%2 == 1 {
				failAt[2+r%5], failAt[40+r%17], failAt[41+r%17], failAt[300+r%200] = true, true, true, true
			}
			mu.Unlock()
			var accepted [streams][]int
			var refused atomic.Int64
			var wg sync.WaitGroup
			for s := 0; s < streams; s++ {
				wg.Add(1)
				go func(s int) {
					defer wg.Done()
					for k := 0; k < per; k++ {
						q := (next + k) & 0xFFFF
						b := make([]byte, payLen(s, q))
						for i := range b {
							b[i] = payByte(s, q, i)
						}
						h := &rtp.Header{Version: 2, SSRC: uint32(s + 1), PayloadType: 96, SequenceNumber: uint16(q), Timestamp: uint32(q) * 90}
						err := p.write(s, h, b)
						switch {
						case err == nil || (p.sync && errors.Is(err, errTransient)):
							accepted[s] = append(accepted[s], q) // a synchronous pacer hands the transport's error back
						default:
							refused.Add(1)
						}
						// the caller's buffers are the caller's again
						for i := range b {
							b[i] = 0xEE
						}
						h.SequenceNumber, h.SSRC = 0xEEEE, 0xEEEEEEEE
						if k%8 == 7 {
							time.Sleep(100 * time.Microsecond)
						}
					}
				}(s)
			}
			wg.Wait()
			next += per
			want := 0
			for s := range accepted {
				want += len(accepted[s])
			}
			packets += want
			for limit := time.Now().Add(30 * time.Second); time.Now().Before(limit); time.Sleep(200 * time.Microsecond) {
				mu.Lock()
				n := calls
				mu.Unlock()
				if n >= want {
					break
				}
			}
			time.Sleep(2 * time.Millisecond) // anything sent twice would follow now

			var problems []string
			problem := func(format string, a ...any) {
				if len(problems) < 4 {
					problems = append(problems, fmt.Sprintf(format, a...))
				}
			}
			mu.Lock()
			for s := 0; s < streams; s++ {
				if len(arrived[s]) != len(accepted[s]) {
					problem("stream %d: %d packets were accepted, %d reached the transport", s, len(accepted[s]), len(arrived[s]))
				}
				for i, a := range arrived[s] {
					if i < len(accepted[s]) && a.seq != accepted[s][i] {
						problem("stream %d: arrival #%d at the transport has sequence number %d, the %d-th accepted packet was %d (order / loss / duplication)", s, i, a.seq, i, accepted[s][i])
						break
					}
					if !a.intact {
						problem("stream %d: packet %d reached the transport with header fields or payload bytes that were not written under that number (%d transport failure(s) injected so far)", s, a.seq, injected)
					}
				}
			}
			mu.Unlock()
			if refused.Load() > 0 {
				problem("%d writes were refused", refused.Load())
			}
			if len(problems) > 0 {
				for _, m := range problems {
					t.Errorf("CONSERVATION pacer-after-failed-write (%s, round %d): %s", p.name, r, m)
				}
				p.close()
				return
			}
		}
		p.close()
	}
	fmt.Printf("stress conserve-pacers-after-failed-write rounds=%d packets=%d failures=%d\n", rounds, packets, injected)
}

package stress

// "An output already handed out is never rewritten", with real goroutines (sampling / search support, never a proof).
//
// C10 says that no two goroutines access interceptor state without synchronisation.  An RTCP packet that an
// interceptor's ticker goroutine has handed to the RTCP writer below it is no longer the interceptor's: the writer may
// queue it and marshal, log or send it on ANOTHER goroutine, any time later (the packetdump sender interceptor of this
// library formats RTCP on its own logger goroutine; an application queues RTCP for a compound-packet writer).  An
// interceptor that keeps the packet — a scratch report per stream, a cached report that is "refreshed" while the
// stream is idle, a reused delta array — and writes into it at a later tick races with that consumer, and the
// consumer sends content that was never emitted.
//
// For every ticker-driven interceptor of the library the test builds the chain [packetdump sender, X] (X writes its
// RTCP into the packet dumper, which logs asynchronously and passes the same packets on) over a bottom RTCP writer
// that records, for every packet, the pointer and its marshalled bytes AT EMISSION (on the emitting goroutine, inside
// Write) and hands the pointer to an asynchronous consumer.  The consumer goroutine re-marshals the kept packets —
// recent ones and older ones — while later ticks run, without any synchronisation with the interceptor (as a real
// consumer would); after Close every kept packet is re-marshalled once more.
//
//	CONSERVATION emitted-rtcp <X>: … differs from what was written   — the content changed after emission
//	WARNING: DATA RACE (ticker goroutine write / consumer or packet-dumper read) — the same, seen by the race detector
//
// Traffic comes in bursts with pauses of several report intervals in between (a muted track, a paused sender),
// sender reports arrive for the remote streams, local and remote streams are bound and unbound while the tickers
// run: quiet intervals are where a "nothing new, reuse the last report" shortcut lives.

import (
	"bytes"
	"fmt"
	"io"
	"sync"
	"sync/atomic"
	"testing"
	"time"

	"github.com/pion/interceptor"
	"github.com/pion/interceptor/pkg/intervalpli"
	"github.com/pion/interceptor/pkg/nack"
	"github.com/pion/interceptor/pkg/packetdump"
	"github.com/pion/interceptor/pkg/report"
	"github.com/pion/interceptor/pkg/rfc8888"
	"github.com/pion/interceptor/pkg/twcc"
	"github.com/pion/rtcp"
	"github.com/pion/rtp"
)

type emittedRTCP struct {
	p    rtcp.Packet
	was  []byte // Marshal() at emission
	werr bool
	n    int64 // emission number
}

func emittedRTCPEntries() []entry {
	return []entry{
		{name: "report-receiver", mk: func() (interceptor.Factory, error) {
			return report.NewReceiverInterceptor(report.ReceiverInterval(time.Millisecond))
		}},
		{name: "report-sender", mk: func() (interceptor.Factory, error) {
			return report.NewSenderInterceptor(report.SenderInterval(time.Millisecond))
		}},
		{name: "twcc-sender", mk: func() (interceptor.Factory, error) {
			return twcc.NewSenderInterceptor(twcc.SendInterval(time.Millisecond))
		}},
		{name: "rfc8888", mk: func() (interceptor.Factory, error) {
			return rfc8888.NewSenderInterceptor(rfc8888.SendInterval(time.Millisecond))
		}},
		{name: "nack-generator", mk: func() (interceptor.Factory, error) {
			return nack.NewGeneratorInterceptor(nack.GeneratorInterval(time.Millisecond), nack.GeneratorSize(64), nack.GeneratorMaxNacksPerPacket(2))
		}},
		{name: "intervalpli", mk: func() (interceptor.Factory, error) {
			return intervalpli.NewReceiverInterceptor(intervalpli.GeneratorInterval(time.Millisecond))
		}},
	}
}

func TestConserveEmittedRTCPAsyncConsumer(t *testing.T) {
	d := time.Duration(*fMillis) * time.Millisecond
	for _, e := range emittedRTCPEntries() {
		if *fOnly != "" && *fOnly != e.name {
			continue
		}
		e := e
		t.Run(e.name, func(t *testing.T) { runEmittedRTCP(t, e, d) })
	}
}

func runEmittedRTCP(t *testing.T, e entry, d time.Duration) {
	f, err := e.mk()
	if err != nil {
		t.Fatalf("%s: %v", e.name, err)
	}
	x, err := f.NewInterceptor("emitted")
	if err != nil {
		t.Fatalf("%s: %v", e.name, err)
	}
	df, err := packetdump.NewSenderInterceptor(packetdump.RTPWriter(io.Discard), packetdump.RTCPWriter(io.Discard))
	if err != nil {
		t.Fatal(err)
	}
	dump, err := df.NewInterceptor("emitted")
	if err != nil {
		t.Fatal(err)
	}
	// interceptor.Chain binds in list order: X's RTCP writer is what the packet dumper returned
	ic := interceptor.NewChain([]interceptor.Interceptor{dump, x})

	var (
		mu       sync.Mutex
		kept     []*emittedRTCP
		emitted  atomic.Int64
		failMu   sync.Mutex
		failures []string
		seen     = map[int64]bool{}
	)
	fail := func(k *emittedRTCP, now []byte, nerr error, when string) {
		failMu.Lock()
		defer failMu.Unlock()
		if seen[k.n] {
			return
		}
		seen[k.n] = true
		if len(failures) < 5 {
			failures = append(failures, fmt.Sprintf("packet #%d (%T) read %s differs from what was written: written %x (marshal error: %v), now %x (marshal error: %v)",
				k.n, k.p, when, k.was, k.werr, now, nerr))
		}
	}
	check := func(k *emittedRTCP, when string) {
		now, nerr := k.p.Marshal()
		if (nerr != nil) != k.werr || !bytes.Equal(now, k.was) {
			fail(k, now, nerr, when)
		}
	}
	const maxKept = 50000
	ic.BindRTCPWriter(interceptor.RTCPWriterFunc(func(pkts []rtcp.Packet, _ interceptor.Attributes) (int, error) {
		for _, p := range pkts {
			if p == nil {
				continue
			}
			was, werr := p.Marshal()
			k := &emittedRTCP{p: p, was: was, werr: werr != nil, n: emitted.Add(1)}
			mu.Lock()
			if len(kept) < maxKept {
				kept = append(kept, k)
			}
			mu.Unlock()
		}
		return 0, nil
	}))

	stop := make(chan struct{})
	var wg sync.WaitGroup
	stopped := func() bool {
		select {
		case <-stop:
			return true
		default:
			return false
		}
	}
	// the asynchronous consumer: re-reads kept packets while later ticks run
	wg.Add(1)
	go func() {
		defer wg.Done()
		for round := 0; !stopped(); round++ {
			mu.Lock()
			n := len(kept)
			var batch []*emittedRTCP
			for i := max(0, n-48); i < n; i++ { // what was written during the last few intervals
				batch = append(batch, kept[i])
			}
			for i := round % 7; i < n-48; i += 7 + n/256 { // and a sample of everything older
				batch = append(batch, kept[i])
			}
			mu.Unlock()
			for _, k := range batch {
				check(k, "by the asynchronous consumer while later ticks ran")
			}
			time.Sleep(300 * time.Microsecond)
		}
	}()

	// incoming RTCP: sender reports for the remote streams (and other kinds)
	var rtcpK atomic.Int64
	rtcpR := ic.BindRTCPReader(interceptor.RTCPReaderFunc(func(b []byte, a interceptor.Attributes) (int, interceptor.Attributes, error) {
		k := int(rtcpK.Add(1))
		var src []byte
		if k%2 == 0 {
			src = rtcpBytes(6*k, uint32(1+k/2%3)) // a sender report of stream 1..3
		} else {
			src = rtcpBytes(k, uint32(1+k%3))
		}
		return copy(b, src), a, nil
	}))
	wg.Add(1)
	go func() {
		defer wg.Done()
		buf := make([]byte, 1500)
		for !stopped() {
			_, _, _ = rtcpR.Read(buf, interceptor.Attributes{})
			time.Sleep(700 * time.Microsecond)
		}
	}()

	mkReader := func(ssrc uint32) interceptor.RTPReader {
		var seq atomic.Uint32
		return ic.BindRemoteStream(info(ssrc), interceptor.RTPReaderFunc(func(b []byte, a interceptor.Attributes) (int, interceptor.Attributes, error) {
			s := seq.Add(1)
			if s%5 == 0 {
				s = seq.Add(1) // loss
			}
			h := rtp.Header{Version: 2, SSRC: ssrc, PayloadType: 96, SequenceNumber: uint16(s), Timestamp: s * 3000,
				Extension: true, ExtensionProfile: 0xBEDE}
			_ = h.SetExtension(5, []byte{byte(s >> 8), byte(s)})
			n, err := h.MarshalTo(b)
			if err != nil {
				return 0, nil, err
			}
			n += copy(b[n:], []byte{1, 2, 3, 4, 5, 6, 7, 8})
			return n, a, nil
		}))
	}
	mkWriter := func(ssrc uint32) interceptor.RTPWriter {
		return ic.BindLocalStream(info(ssrc), interceptor.RTPWriterFunc(func(_ *rtp.Header, p []byte, _ interceptor.Attributes) (int, error) {
			return len(p), nil
		}))
	}
	// streams 1..3: bursts of traffic separated by pauses of 2..9 report intervals (every stream on its own rhythm)
	for ssrc := uint32(1); ssrc <= 3; ssrc++ {
		r, w := mkReader(ssrc), mkWriter(ssrc)
		ssrc := ssrc
		wg.Add(1)
		go func() {
			defer wg.Done()
			buf := make([]byte, 1500)
			seq := uint16(0)
			for burst := 0; !stopped(); burst++ {
				for i := 0; i < 3+burst%5 && !stopped(); i++ {
					_, _, _ = r.Read(buf, interceptor.Attributes{})
					seq++
					h := &rtp.Header{Version: 2, SSRC: ssrc, PayloadType: 96, SequenceNumber: seq, Timestamp: uint32(seq) * 3000,
						Extension: true, ExtensionProfile: 0xBEDE}
					_ = h.SetExtension(5, []byte{byte(seq >> 8), byte(seq)})
					_, _ = w.Write(h, make([]byte, 50+int(seq)%100), nil)
					if i%2 == 1 {
						time.Sleep(200 * time.Microsecond)
					}
				}
				time.Sleep(time.Duration(2+(burst*int(ssrc))%8) * time.Millisecond) // the track is muted for a while
			}
		}()
	}
	// a stream that comes and goes
	wg.Add(1)
	go func() {
		defer wg.Done()
		buf := make([]byte, 1500)
		for i := 0; !stopped(); i++ {
			ssrc := uint32(4 + i%2)
			r, w := mkReader(ssrc), mkWriter(ssrc)
			for k := 0; k < 3; k++ {
				_, _, _ = r.Read(buf, interceptor.Attributes{})
				_, _ = w.Write(&rtp.Header{Version: 2, SSRC: ssrc, PayloadType: 96, SequenceNumber: uint16(i*3 + k)}, []byte{1, 2, 3}, nil)
			}
			time.Sleep(3 * time.Millisecond)
			ic.UnbindRemoteStream(info(ssrc))
			ic.UnbindLocalStream(info(ssrc))
			time.Sleep(time.Millisecond)
		}
	}()

	time.Sleep(d)
	close(stop)
	fin := make(chan struct{})
	go func() { wg.Wait(); close(fin) }()
	select {
	case <-fin:
	case <-time.After(20 * time.Second):
		t.Errorf("DEADLOCK %s: traffic goroutines did not return within 20 s", e.name)
		dumpStacks()
		return
	}
	// a few more quiet intervals, then Close (which waits for the ticker goroutine), then the final reading
	time.Sleep(5 * time.Millisecond)
	done := make(chan error, 1)
	go func() { done <- ic.Close() }()
	select {
	case <-done:
	case <-time.After(20 * time.Second):
		t.Errorf("DEADLOCK %s: Close did not return within 20 s", e.name)
		dumpStacks()
		return
	}
	time.Sleep(5 * time.Millisecond)
	mu.Lock()
	all := append([]*emittedRTCP(nil), kept...)
	mu.Unlock()
	for _, k := range all {
		check(k, "after Close")
	}
	fmt.Printf("stress emitted-rtcp %-16s packets-kept=%d emitted=%d\n", e.name, len(all), emitted.Load())
	for _, m := range failures {
		t.Errorf("CONSERVATION emitted-rtcp %s: %s", e.name, m)
	}
}

package stress

// C08 with real goroutines (sampling / search support, never a proof: the theorems of Props/C08 are about
// the sequential recorder model; this test samples schedules of the interceptor that owns the recorder).
//
// A continuous feeder per remote stream - independent of the report ticker, which fires every millisecond -
// delivers RTP in sequence-number order.  What the property says about every report is then checked on
// every report the interceptor writes:
//   * a packet is marked received exactly if it arrived: every number marked received was delivered
//     before the report was written, every number marked not received is one the feeder skipped
//     (numbers are delivered in order, so inside a reported range "not yet delivered" cannot occur);
//   * the arrival-time offset is floor(1024 x (report time - arrival)): the report time is taken after
//     the packets in the report were recorded, so it is never the "arrived after the report" code 0x1FFF,
//     and it cannot exceed the age of the whole test;
//   * a packet once reported received is never later reported lost;
//   * every packet that arrived since the last report appears in the next one unless pushed out by the
//     size limit: the loss-free streams keep fewer packets unreported than the per-stream budget of the
//     fixed 1200-byte report (window below), so for them NOTHING may be pushed out and every delivered
//     number must be reported received exactly once (acknowledged in a gap-free prefix, then dropped).
// A stream with losses runs next to them without any window (its cursor stalls at the first gap, the size
// limit truncates it - allowed); only the per-report facts are checked for it.

import (
	"fmt"
	"runtime"
	"sync"
	"sync/atomic"
	"testing"
	"time"

	"github.com/pion/interceptor"
	"github.com/pion/interceptor/pkg/rfc8888"
	"github.com/pion/rtcp"
	"github.com/pion/rtp"
)

func TestConserveRfc8888Feeder(t *testing.T) {
	const (
		lossFree = 3  // streams 1..3: no loss, exact conservation
		streams  = 4  // stream 4: every 7th number skipped, no window
		window   = 96 // unreported packets per loss-free stream; budget: ((1200-12-8*4)/2)/4 = 144 blocks
		firstSeq = 65000
	)
	f, err := rfc8888.NewSenderInterceptor(rfc8888.SendInterval(time.Millisecond))
	if err != nil {
		t.Fatal(err)
	}
	ic, err := f.NewInterceptor("c")
	if err != nil {
		t.Fatal(err)
	}
	t0 := time.Now()

	type streamState struct {
		mu        sync.Mutex
		delivered map[uint32]bool // unwrapped numbers handed to the interceptor (set BEFORE Read returns them)
		skipped   map[uint32]bool
		received  map[uint32]int // unwrapped number -> reports that marked it received
		next      atomic.Uint32  // next unwrapped number the feeder will deliver
		reported  atomic.Uint32  // one past the highest unwrapped number seen in any report
	}
	st := make([]*streamState, streams+1)
	for s := 1; s <= streams; s++ {
		st[s] = &streamState{delivered: map[uint32]bool{}, skipped: map[uint32]bool{}, received: map[uint32]int{}}
		st[s].next.Store(firstSeq)
		st[s].reported.Store(firstSeq)
	}
	var failMu sync.Mutex
	var failures []string
	fail := func(format string, a ...any) {
		failMu.Lock()
		if len(failures) < 5 {
			failures = append(failures, fmt.Sprintf(format, a...))
		}
		failMu.Unlock()
	}
	var reports atomic.Int64
	ic.BindRTCPWriter(interceptor.RTCPWriterFunc(func(pkts []rtcp.Packet, _ interceptor.Attributes) (int, error) {
		age := time.Since(t0)
		for _, p := range pkts {
			r, ok := p.(*rtcp.CCFeedbackReport)
			if !ok {
				continue
			}
			for _, b := range r.ReportBlocks {
				if b.MediaSSRC < 1 || b.MediaSSRC > streams {
					fail("report names unknown stream %d", b.MediaSSRC)
					continue
				}
				s := st[b.MediaSSRC]
				if len(b.MetricBlocks) == 0 {
					continue
				}
				// unwrap BeginSequence next to the feeder position (the run covers far less than 2^15 numbers)
				ref := s.next.Load()
				begin := ref - uint32(uint16(ref)-b.BeginSequence)
				s.mu.Lock()
				for k, m := range b.MetricBlocks {
					x := begin + uint32(k)
					switch {
					case m.Received && !s.delivered[x]:
						fail("stream %d: number %d reported received but it was never delivered", b.MediaSSRC, x)
					case m.Received:
						s.received[x]++
						if m.ArrivalTimeOffset == 0x1FFF {
							fail("stream %d number %d: arrival-time offset 0x1FFF (arrived after the report time) although the report time is taken after the packet was recorded", b.MediaSSRC, x)
						} else if max := uint64(age.Seconds()*1024) + 2; uint64(m.ArrivalTimeOffset) > max {
							fail("stream %d number %d: arrival-time offset %d/1024 s exceeds the age of the whole run (%v)", b.MediaSSRC, x, m.ArrivalTimeOffset, age)
						}
					case !m.Received && !s.skipped[x]:
						fail("stream %d: number %d reported NOT received inside the range %d..%d, but the feeder delivers in order and did not skip it (delivered=%v, earlier reports marked it received %d times)",
							b.MediaSSRC, x, begin, begin+uint32(len(b.MetricBlocks))-1, s.delivered[x], s.received[x])
					}
				}
				s.mu.Unlock()
				if end := begin + uint32(len(b.MetricBlocks)); end > s.reported.Load() {
					s.reported.Store(end)
				}
			}
		}
		reports.Add(1)
		return 0, nil
	}))

	readers := make([]interceptor.RTPReader, streams+1)
	for s := 1; s <= streams; s++ {
		s := s
		readers[s] = ic.BindRemoteStream(info(uint32(s)), interceptor.RTPReaderFunc(func(b []byte, a interceptor.Attributes) (int, interceptor.Attributes, error) {
			x := st[s].next.Load()
			st[s].mu.Lock()
			if s > lossFree {
				for x%7 == 0 {
					st[s].skipped[x] = true
					x++
				}
			}
			st[s].delivered[x] = true
			st[s].mu.Unlock()
			st[s].next.Store(x + 1)
			h := rtp.Header{Version: 2, SSRC: uint32(s), PayloadType: 96, SequenceNumber: uint16(x), Timestamp: x * 90}
			n, err := h.MarshalTo(b)
			if err != nil {
				return 0, nil, err
			}
			n += copy(b[n:], []byte{1, 2, 3, 4})
			return n, a, nil
		}))
	}
	deadline := time.Now().Add(time.Duration(*fMillis) * time.Millisecond)
	var wg sync.WaitGroup
	for s := 1; s <= streams; s++ {
		wg.Add(1)
		go func(s int) {
			defer wg.Done()
			buf := make([]byte, 1500)
			for n := 0; time.Now().Before(deadline); n++ {
				if s <= lossFree && st[s].next.Load()-st[s].reported.Load() >= window {
					runtime.Gosched() // window full: wait for a report (flow control by what was reported, not by the ticker)
					continue
				}
				if _, _, err := readers[s].Read(buf, interceptor.Attributes{}); err != nil {
					fail("read on stream %d: %v", s, err)
					return
				}
			}
		}(s)
	}
	wg.Wait()
	// every report is built after the previous one was written: the second report written from now on was
	// built after the last delivery
	base := reports.Load()
	for wait := time.Now(); reports.Load() < base+2; {
		if time.Since(wait) > 20*time.Second {
			fail("no two further reports within 20 s after the feeders stopped (reports so far: %d)", reports.Load())
			break
		}
		time.Sleep(time.Millisecond)
	}
	_ = ic.Close()
	total := 0
	for s := 1; s <= lossFree; s++ {
		st[s].mu.Lock()
		for x := range st[s].delivered {
			total++
			if c := st[s].received[x]; c != 1 {
				fail("loss-free stream %d: delivered number %d was reported received %d times over all reports, want exactly once (never more than %d packets were unreported; the 1200-byte report holds 144 per stream)",
					s, x, c, window)
			}
		}
		st[s].mu.Unlock()
	}
	fmt.Printf("stress conserve-rfc8888-feeder delivered=%d(+lossy stream %d) reports=%d\n", total, st[streams].next.Load()-firstSeq, reports.Load())
	for _, m := range failures {
		t.Errorf("CONSERVATION rfc8888-feeder: %s", m)
	}
}

package stress

// C17 / C10 with real goroutines (sampling / search support, never a proof): streams are REGISTERED concurrently.
// An application adds its tracks from whatever goroutines it likes (pion/webrtc binds every RTPSender on the
// goroutine that called AddTrack / SetLocalDescription), so AddStream / BindLocalStream calls for DIFFERENT SSRCs
// may overlap.  Afterwards every stream is registered: a packet the pacer accepts for any of them (Write returned
// no error) is handed to THAT stream's next writer exactly once (C17 "every accepted packet is delivered once",
// per stream).  The deterministic correspondence registers streams one after the other; a registration that is
// atomic only against Write / Run, not against another registration (read-copy-update without a retry, a
// check-then-insert window), loses a stream without any data race: only this per-stream count notices.
//
// Objects: gcc.LeakyBucketPacer, gcc.NoOpPacer, gcc.SendSideBWE with its default pacer, the cc interceptor over
// that estimator, and the pkg/pacing interceptor.  Trials run in batches (many objects per batch, so that one pacing
// interval serves the whole batch): K goroutines per object spin on a common start flag, register one stream each,
// are joined; then one packet per stream is written and the batch waits until everything has arrived (or 3 s).

import (
	"fmt"
	"runtime"
	"sync"
	"sync/atomic"
	"testing"
	"time"

	"github.com/pion/interceptor"
	"github.com/pion/interceptor/pkg/cc"
	"github.com/pion/interceptor/pkg/gcc"
	"github.com/pion/interceptor/pkg/pacing"
	"github.com/pion/rtp"
)

type addStreamObj struct {
	// add registers the stream and returns the writer the application uses for it
	add   func(ssrc uint32, next interceptor.RTPWriter) interceptor.RTPWriter
	close func()
}

func TestConserveConcurrentAddStream(t *testing.T) {
	const streams = 6
	const batch = 48

	kinds := []struct {
		name string
		mk   func() addStreamObj
	}{
		{"gcc.LeakyBucketPacer.AddStream", func() addStreamObj {
			p := gcc.NewLeakyBucketPacer(400_000_000)
			return addStreamObj{
				add:   func(ssrc uint32, w interceptor.RTPWriter) interceptor.RTPWriter { p.AddStream(ssrc, w); return p },
				close: func() { _ = p.Close() }}
		}},
		{"gcc.NoOpPacer.AddStream", func() addStreamObj {
			p := gcc.NewNoOpPacer()
			return addStreamObj{
				add:   func(ssrc uint32, w interceptor.RTPWriter) interceptor.RTPWriter { p.AddStream(ssrc, w); return p },
				close: func() { _ = p.Close() }}
		}},
		{"gcc.SendSideBWE.AddStream (default pacer)", func() addStreamObj {
			e := must(gcc.NewSendSideBWE(gcc.SendSideBWEInitialBitrate(400_000_000), gcc.SendSideBWEMaxBitrate(1_000_000_000)))
			return addStreamObj{
				add:   func(ssrc uint32, w interceptor.RTPWriter) interceptor.RTPWriter { return e.AddStream(info(ssrc), w) },
				close: func() { _ = e.Close() }}
		}},
		{"cc.Interceptor.BindLocalStream (gcc, default pacer)", func() addStreamObj {
			f := must(cc.NewInterceptor(func() (cc.BandwidthEstimator, error) {
				return gcc.NewSendSideBWE(gcc.SendSideBWEInitialBitrate(400_000_000), gcc.SendSideBWEMaxBitrate(1_000_000_000))
			}))
			ic := must(f.NewInterceptor("c"))
			return addStreamObj{
				add:   func(ssrc uint32, w interceptor.RTPWriter) interceptor.RTPWriter { return ic.BindLocalStream(info(ssrc), w) },
				close: func() { _ = ic.Close() }}
		}},
		{"pacing.Interceptor.BindLocalStream", func() addStreamObj {
			ic := must(pacing.NewInterceptor(pacing.InitialRate(400_000_000), pacing.Interval(time.Millisecond)).NewInterceptor("c"))
			return addStreamObj{
				add:   func(ssrc uint32, w interceptor.RTPWriter) interceptor.RTPWriter { return ic.BindLocalStream(info(ssrc), w) },
				close: func() { _ = ic.Close() }}
		}},
	}

	share := time.Duration(*fMillis) * time.Millisecond / time.Duration(len(kinds))
	trials := 0
	for _, kind := range kinds {
		deadline := time.Now().Add(share)
		for b := 0; b == 0 || time.Now().Before(deadline); b++ {
			type trial struct {
				obj     addStreamObj
				writers [streams]interceptor.RTPWriter
				got     [streams][streams]atomic.Int32 // got[i][j]: packets of stream j's SSRC that reached stream i's next writer
			}
			ts := make([]*trial, batch)
			var start atomic.Bool
			var wg sync.WaitGroup
			for k := range ts {
				tr := &trial{obj: kind.mk()}
				ts[k] = tr
				for i := 0; i < streams; i++ {
					wg.Add(1)
					go func(i int) {
						defer wg.Done()
						next := interceptor.RTPWriterFunc(func(h *rtp.Header, p []byte, _ interceptor.Attributes) (int, error) {
							if j := int(h.SSRC) - 1001; j >= 0 && j < streams {
								tr.got[i][j].Add(1)
							}
							return len(p), nil
						})
						for !start.Load() {
							runtime.Gosched()
						}
						tr.writers[i] = tr.obj.add(uint32(1001+i), next)
					}(i)
				}
			}
			time.Sleep(200 * time.Microsecond) // let them reach the start line
			start.Store(true)
			wg.Wait()
			// every registration has returned: one packet per stream
			accepted := make([][streams]bool, batch)
			for k, tr := range ts {
				for i := 0; i < streams; i++ {
					h := &rtp.Header{Version: 2, SSRC: uint32(1001 + i), PayloadType: 96, SequenceNumber: uint16(b), Timestamp: 90}
					ext, _ := (&rtp.TransportCCExtension{TransportSequence: uint16(b*streams + i)}).Marshal()
					_ = h.SetExtension(5, ext) // the streams negotiate transport-cc under id 5 (info())
					_, err := tr.writers[i].Write(h, []byte{1, 2, 3, byte(i)}, interceptor.Attributes{})
					accepted[k][i] = err == nil
				}
			}
			complete := func() bool {
				for k, tr := range ts {
					for i := 0; i < streams; i++ {
						if accepted[k][i] && tr.got[i][i].Load() == 0 {
							return false
						}
					}
				}
				return true
			}
			for limit := time.Now().Add(3 * time.Second); !complete() && time.Now().Before(limit); {
				time.Sleep(time.Millisecond)
			}
			time.Sleep(2 * time.Millisecond) // a second copy would follow now
			var problems []string
			for k, tr := range ts {
				for i := 0; i < streams; i++ {
					if !accepted[k][i] {
						problems = append(problems, fmt.Sprintf("object %d: the write for stream %d (ssrc %d) was refused after its registration had returned", k, i, 1001+i))
						continue
					}
					for j := 0; j < streams; j++ {
						n := tr.got[j][i].Load()
						switch {
						case j == i && n != 1:
							problems = append(problems, fmt.Sprintf("object %d: the accepted packet of stream %d (ssrc %d) was handed to its next writer %d times (streams were registered by %d concurrent goroutines)", k, i, 1001+i, n, streams))
						case j != i && n != 0:
							problems = append(problems, fmt.Sprintf("object %d: the packet of stream %d (ssrc %d) was handed to the next writer of stream %d", k, i, 1001+i, j))
						}
					}
				}
				tr.obj.close()
			}
			trials += batch
			if len(problems) > 0 {
				for i, m := range problems {
					if i < 4 {
						t.Errorf("CONSERVATION concurrent-addstream (%s, batch %d): %s", kind.name, b, m)
					}
				}
				return
			}
		}
	}
	fmt.Printf("stress conserve-concurrent-addstream objects=%d streams-each=%d\n", trials, streams)
}

package stress

// C07 with the real ticker goroutine and a SYNCHRONOUS, re-entrant transport (sampling / search support, never a
// proof): the RTCP writer that receives a sender report writes one RTP packet on EVERY bound stream before it returns
// (an in-process loop-back, a transport that answers from its write path).  C07: "each sender report for a bound local
// stream carries a packet count equal to the number of RTP packets written on that stream and an octet count equal to
// the sum of their payload lengths" — so the report of the second and third stream of a tick, handed to the writer
// after those packets went out, counts them.  Everything happens on the interceptor's own goroutine, so the recount
// below is exact at every report (round 10: reports of one tick snapshotted before any of them is written).

import (
	"fmt"
	"testing"
	"time"

	"github.com/pion/interceptor"
	"github.com/pion/interceptor/pkg/report"
	"github.com/pion/rtcp"
	"github.com/pion/rtp"
)

func TestConserveSenderReportReenter(t *testing.T) {
	sf, err := report.NewSenderInterceptor(report.SenderInterval(time.Millisecond))
	if err != nil {
		t.Fatal(err)
	}
	sr, _ := sf.NewInterceptor("c")
	ssrcs := []uint32{11, 22, 33}
	writers := map[uint32]interceptor.RTPWriter{}
	for _, s := range ssrcs {
		writers[s] = sr.BindLocalStream(info(s), interceptor.RTPWriterFunc(
			func(*rtp.Header, []byte, interceptor.Attributes) (int, error) { return 0, nil }))
	}
	written := map[uint32]uint32{} // touched by the interceptor's goroutine only, read after Close
	octets := map[uint32]uint32{}
	reports, bad := 0, 0
	var first string
	deadline := time.Now().Add(time.Duration(*fMillis) * time.Millisecond)
	sr.BindRTCPWriter(interceptor.RTCPWriterFunc(func(p []rtcp.Packet, _ interceptor.Attributes) (int, error) {
		for _, x := range p {
			s, ok := x.(*rtcp.SenderReport)
			if !ok {
				continue
			}
			reports++
			if s.PacketCount != written[s.SSRC] || s.OctetCount != octets[s.SSRC] {
				bad++
				if first == "" {
					first = fmt.Sprintf("report %d, ssrc %d: PacketCount=%d OctetCount=%d, written so far %d packets / %d octets",
						reports, s.SSRC, s.PacketCount, s.OctetCount, written[s.SSRC], octets[s.SSRC])
				}
			}
		}
		if time.Now().After(deadline) {
			return 0, nil
		}
		for _, s := range ssrcs { // the transport answers from its write path
			n := written[s]
			pay := make([]byte, 1+int(n%7))
			h := &rtp.Header{Version: 2, SSRC: s, PayloadType: 96, SequenceNumber: uint16(n), Timestamp: 90 * n}
			if _, err := writers[s].Write(h, pay, interceptor.Attributes{}); err == nil {
				written[s]++
				octets[s] += uint32(len(pay))
			}
		}
		return 0, nil
	}))
	time.Sleep(time.Duration(*fMillis)*time.Millisecond + 20*time.Millisecond)
	if err := sr.Close(); err != nil {
		t.Fatal(err)
	}
	fmt.Printf("stress conserve-sr-reenter reports=%d writes=%d\n", reports, written[11]+written[22]+written[33])
	if reports < 6 {
		t.Skipf("only %d reports in the window", reports)
	}
	if bad > 0 {
		t.Errorf("CONSERVATION report-sender (re-entrant transport): %d of %d sender reports do not count what was written when they were handed over; first: %s", bad, reports, first)
	}
}

package stress

// C05 with real goroutines (sampling / search support, never a proof: the theorems of Props/C05 are about the
// sequential recorder model; this test samples schedules of the interceptor that feeds the recorder).
//
// Eight remote streams bound to ONE twcc.SenderInterceptor are read by eight goroutines released together;
// every packet carries a transport-wide sequence number that is unique over all streams.  The property says
// the feedback "reports exactly what was received": it marks as received only numbers with a recorded
// arrival, and every packet recorded since the previous feedback is reported by the next one.  Hence, over
// the union of all feedback written:
//   * every number marked received was delivered through one of the readers,
//   * every delivered number is marked received by some feedback (a packet overtaken by a feedback build is
//     first reported lost and then - the recorder steps back - reported again as received),
//   * while nothing is older than the 500 ms history, the LAST status reported for a delivered number is
//     "received" (afterwards entries may be culled and legitimately re-reported as lost; then only the
//     first two are checked).
// Fewer than 2^15 numbers are in flight per trial (the arrival map holds 2^15).  A trial ends with one
// sentinel packet carrying the highest number: the loop records in delivery order, so the feedback that
// reports the sentinel was built after every other packet had been recorded.

import (
	"fmt"
	"sync"
	"sync/atomic"
	"testing"
	"time"

	"github.com/pion/interceptor"
	"github.com/pion/interceptor/pkg/twcc"
	"github.com/pion/rtcp"
	"github.com/pion/rtp"
)

// twccStatuses walks a TransportLayerCC as a receiver would: one status per number from the base up to the
// status count (padding of the last chunk ignored).  ok=false: the chunks do not cover the declared count
// or the deltas do not match the received statuses.
func twccStatuses(fb *rtcp.TransportLayerCC, visit func(seq uint16, received bool)) bool {
	n, deltas := 0, 0
	emit := func(sym uint16) {
		if n < int(fb.PacketStatusCount) {
			visit(fb.BaseSequenceNumber+uint16(n), sym != rtcp.TypeTCCPacketNotReceived)
			if sym == rtcp.TypeTCCPacketReceivedSmallDelta || sym == rtcp.TypeTCCPacketReceivedLargeDelta {
				deltas++
			}
		}
		n++
	}
	for _, c := range fb.PacketChunks {
		switch c := c.(type) {
		case *rtcp.RunLengthChunk:
			for i := 0; i < int(c.RunLength); i++ {
				emit(c.PacketStatusSymbol)
			}
		case *rtcp.StatusVectorChunk:
			for _, s := range c.SymbolList {
				emit(s)
			}
		}
	}
	return n >= int(fb.PacketStatusCount) && deltas == len(fb.RecvDeltas)
}

func TestConserveTwccFeedbackParallelReaders(t *testing.T) {
	const streams = 8
	const per = 1200 // 8 x 1200 + 1 numbers per trial, far below 2^15
	deadline := time.Now().Add(time.Duration(*fMillis) * time.Millisecond)
	trials, packets := 0, 0
	for trials == 0 || time.Now().Before(deadline) {
		trials++
		first := uint16(65536 - 3000 + trials*2711) // some trials start just below the 16-bit wrap
		sentinel := first + streams*per
		created := time.Now()
		f, err := twcc.NewSenderInterceptor(twcc.SendInterval(time.Millisecond))
		if err != nil {
			t.Fatal(err)
		}
		ic, err := f.NewInterceptor("c")
		if err != nil {
			t.Fatal(err)
		}
		var mu sync.Mutex
		ever := map[uint16]bool{} // marked received by some feedback
		last := map[uint16]bool{} // status in the latest feedback naming the number
		malformed := 0
		var sentinelSeen atomic.Bool
		ic.BindRTCPWriter(interceptor.RTCPWriterFunc(func(pkts []rtcp.Packet, _ interceptor.Attributes) (int, error) {
			mu.Lock()
			defer mu.Unlock()
			for _, p := range pkts {
				fb, ok := p.(*rtcp.TransportLayerCC)
				if !ok {
					continue
				}
				if !twccStatuses(fb, func(seq uint16, received bool) {
					last[seq] = received
					if received {
						ever[seq] = true
						if seq == sentinel {
							sentinelSeen.Store(true)
						}
					}
				}) {
					malformed++
				}
			}
			return 0, nil
		}))
		var next atomic.Uint32
		next.Store(uint32(first))
		var delivered [streams + 1][]uint16
		var readers [streams + 1]interceptor.RTPReader
		for s := 1; s <= streams; s++ {
			s := s
			var rtpSeq uint16
			readers[s] = ic.BindRemoteStream(info(uint32(s)), interceptor.RTPReaderFunc(func(b []byte, a interceptor.Attributes) (int, interceptor.Attributes, error) {
				x := uint16(next.Add(1) - 1)
				rtpSeq++
				h := rtp.Header{Version: 2, SSRC: uint32(s), PayloadType: 96, SequenceNumber: rtpSeq, Timestamp: uint32(rtpSeq) * 90,
					Extension: true, ExtensionProfile: 0xBEDE}
				if err := h.SetExtension(5, []byte{byte(x >> 8), byte(x)}); err != nil {
					return 0, nil, err
				}
				n, err := h.MarshalTo(b)
				if err != nil {
					return 0, nil, err
				}
				n += copy(b[n:], []byte{1, 2, 3, 4})
				delivered[s] = append(delivered[s], x)
				return n, a, nil
			}))
		}
		var start, wg sync.WaitGroup
		start.Add(1)
		var readErr atomic.Value
		for s := 1; s <= streams; s++ {
			wg.Add(1)
			go func(s int) {
				defer wg.Done()
				buf := make([]byte, 1500)
				start.Wait()
				for k := 0; k < per; k++ {
					if _, _, err := readers[s].Read(buf, interceptor.Attributes{}); err != nil {
						readErr.Store(err)
						return
					}
				}
			}(s)
		}
		start.Done()
		wg.Wait()
		if err, _ := readErr.Load().(error); err != nil {
			t.Fatalf("read: %v", err)
		}
		// sentinel: highest number, delivered alone after all the others were handed over
		if _, _, err := readers[1].Read(make([]byte, 1500), interceptor.Attributes{}); err != nil {
			t.Fatalf("read: %v", err)
		}
		for wait := time.Now(); !sentinelSeen.Load(); {
			if time.Since(wait) > 20*time.Second {
				t.Errorf("CONSERVATION twcc-feedback: no feedback reported the last delivered number %d within 20 s (trial %d)", sentinel, trials)
				_ = ic.Close()
				return
			}
			time.Sleep(200 * time.Microsecond)
		}
		young := time.Since(created) < 400*time.Millisecond // nothing can have left the 500 ms history
		_ = ic.Close()
		mu.Lock()
		isDelivered := map[uint16]uint32{}
		for s := 1; s <= streams; s++ {
			for _, x := range delivered[s] {
				isDelivered[x] = uint32(s)
			}
		}
		packets += len(isDelivered)
		var missing, lostLast, phantom []uint16
		for x := range isDelivered {
			if !ever[x] {
				missing = append(missing, x)
			} else if young && !last[x] {
				lostLast = append(lostLast, x)
			}
		}
		for x := range ever {
			if _, ok := isDelivered[x]; !ok {
				phantom = append(phantom, x)
			}
		}
		mu.Unlock()
		if len(isDelivered) != streams*per+1 {
			t.Fatalf("harness: %d distinct numbers delivered, want %d", len(isDelivered), streams*per+1)
		}
		bad := false
		if len(missing) > 0 {
			bad = true
			t.Errorf("CONSERVATION twcc-feedback: %d of %d delivered packets (numbers %d.. on %d streams read in parallel, trial %d) were never reported as received by any feedback, e.g. number %d read on stream %d",
				len(missing), len(isDelivered), first, streams, trials, missing[0], isDelivered[missing[0]])
		}
		if len(lostLast) > 0 {
			bad = true
			t.Errorf("CONSERVATION twcc-feedback: %d delivered packets were last reported as NOT received although nothing was older than the 500 ms history, e.g. number %d (trial %d)",
				len(lostLast), lostLast[0], trials)
		}
		if len(phantom) > 0 {
			bad = true
			t.Errorf("CONSERVATION twcc-feedback: %d numbers reported received that no reader delivered, e.g. %d (trial %d, numbers %d..%d delivered)",
				len(phantom), phantom[0], trials, first, sentinel)
		}
		if malformed > 0 {
			bad = true
			t.Errorf("CONSERVATION twcc-feedback: %d feedback packets whose chunks do not cover the status count or whose deltas do not match the received statuses (trial %d)", malformed, trials)
		}
		if bad {
			return
		}
	}
	fmt.Printf("stress conserve-twcc-feedback-parallel trials=%d packets=%d\n", trials, packets)
}

package stress

// Stream churn under traffic (C02 "no packet can crash an interceptor ... after an arbitrary prior
// history", C10 "Bind/Unbind racing with traffic"): for EVERY interceptor factory of the TestStress
// table, goroutines keep binding and unbinding OTHER local and remote streams while
//   - RTP flows in both directions on two stable streams,
//   - the churned streams themselves carry a few packets between their Bind and Unbind, and
//   - several RTCP read loops deliver sender/receiver reports, NACKs, PLIs, TWCC and RFC 8888 feedback
//     that name the stable SSRCs, the SSRCs that are being bound/unbound at that moment, their RTX
//     SSRCs and SSRCs that were never bound.
// An interceptor that looks a stream up (or walks its stream table) on the packet path without the
// lock that Bind/Unbind hold shows up as a data race, as the runtime's "fatal error: concurrent map
// read and map write", or as a panic in the reading goroutine.  The sequential correspondence runs
// cannot see this: in one goroutine a lookup of a stream that is not bound is a harmless miss.
//
// Real goroutines on the real scheduler: sampling / search support, never a proof.  What is proved
// (Props/C10.lean) is "lock discipline implies no conflicting accesses" over lock facts regenerated
// from the source; this run only tries to make the permitted concurrency actually happen.

import (
	"fmt"
	"runtime"
	"sync"
	"sync/atomic"
	"testing"
	"time"

	"github.com/pion/interceptor"
	"github.com/pion/rtcp"
	"github.com/pion/rtp"
)

// SSRCs named by the incoming RTCP of the churn run.  13 entries: coprime with the 6 RTCP kinds of
// rtcpBytes, so every (kind, SSRC) pair is produced.
var churnRTCPSSRCs = []uint32{1, 10, 20, 2, 11, 21, 1010, 12, 22, 999, 13, 23, 2012}

func churnHeader(ssrc uint32, seq uint16) *rtp.Header {
	h := &rtp.Header{Version: 2, SSRC: ssrc, PayloadType: 96, SequenceNumber: seq, Timestamp: uint32(seq) * 3000,
		Extension: true, ExtensionProfile: 0xBEDE}
	_ = h.SetExtension(5, []byte{byte(seq >> 8), byte(seq)})
	return h
}

func churnReader(ic interceptor.Interceptor, ssrc uint32) interceptor.RTPReader {
	var seq atomic.Uint32
	return ic.BindRemoteStream(info(ssrc), interceptor.RTPReaderFunc(func(b []byte, a interceptor.Attributes) (int, interceptor.Attributes, error) {
		s := seq.Add(1)
		if s%5 == 0 {
			s = seq.Add(3) // losses, so that NACK generators have something to ask for
		}
		n, err := churnHeader(ssrc, uint16(s)).MarshalTo(b)
		if err != nil {
			return 0, nil, err
		}
		n += copy(b[n:], []byte{1, 2, 3, 4, 5, 6, 7, 8})
		return n, a, nil
	}))
}

func runChurn(t *testing.T, e entry, d time.Duration) {
	f, err := e.mk()
	if err != nil {
		t.Fatalf("%s: %v", e.name, err)
	}
	ic, err := f.NewInterceptor("churn")
	if err != nil {
		t.Fatalf("%s: %v", e.name, err)
	}
	var rtpOut, rtcpOut, binds atomic.Int64
	_ = ic.BindRTCPWriter(interceptor.RTCPWriterFunc(func(p []rtcp.Packet, _ interceptor.Attributes) (int, error) {
		rtcpOut.Add(1)
		return 0, nil
	}))
	var rtcpK atomic.Int64
	rtcpR := ic.BindRTCPReader(interceptor.RTCPReaderFunc(func(b []byte, a interceptor.Attributes) (int, interceptor.Attributes, error) {
		k := int(rtcpK.Add(1))
		return copy(b, rtcpBytes(k, churnRTCPSSRCs[k%len(churnRTCPSSRCs)])), a, nil
	}))
	bottom := interceptor.RTPWriterFunc(func(h *rtp.Header, p []byte, _ interceptor.Attributes) (int, error) {
		rtpOut.Add(1)
		return len(p), nil
	})
	stop := make(chan struct{})
	var wg sync.WaitGroup
	spawn := func(fn func(i int)) {
		wg.Add(1)
		go func() {
			defer wg.Done()
			for i := 0; ; i++ {
				select {
				case <-stop:
					return
				default:
				}
				fn(i)
				if i%32 == 0 {
					runtime.Gosched()
				}
			}
		}()
	}
	// stable streams: RTP in both directions for the whole run
	for ssrc := uint32(1); ssrc <= 2; ssrc++ {
		ssrc := ssrc
		w := ic.BindLocalStream(info(ssrc), bottom)
		r := churnReader(ic, ssrc)
		payload := make([]byte, 100)
		spawn(func(i int) { _, _ = w.Write(churnHeader(ssrc, uint16(i)), payload, nil) })
		buf := make([]byte, 1500)
		spawn(func(i int) { _, _, _ = r.Read(buf, interceptor.Attributes{}) })
	}
	// local churn: two goroutines, each owns two SSRCs (a stream is bound by one goroutine at a time)
	for c := uint32(0); c < 2; c++ {
		c := c
		payload := make([]byte, 60)
		spawn(func(i int) {
			ssrc := 10 + 2*c + uint32(i%2)
			w := ic.BindLocalStream(info(ssrc), bottom)
			binds.Add(1)
			for k := 0; k < 3; k++ {
				_, _ = w.Write(churnHeader(ssrc, uint16(3*i+k)), payload, nil)
			}
			ic.UnbindLocalStream(info(ssrc))
		})
	}
	// remote churn
	for c := uint32(0); c < 2; c++ {
		c := c
		buf := make([]byte, 1500)
		spawn(func(i int) {
			ssrc := 20 + 2*c + uint32(i%2)
			r := churnReader(ic, ssrc)
			binds.Add(1)
			for k := 0; k < 3; k++ {
				_, _, _ = r.Read(buf, interceptor.Attributes{})
			}
			ic.UnbindRemoteStream(info(ssrc))
		})
	}
	// RTCP read loops
	for k := 0; k < 3; k++ {
		buf := make([]byte, 1500)
		spawn(func(i int) { _, _, _ = rtcpR.Read(buf, interceptor.Attributes{}) })
	}
	if e.observe != nil {
		spawn(func(i int) { e.observe(ic); time.Sleep(100 * time.Microsecond) })
	}
	time.Sleep(d)
	close(stop)
	fin := make(chan struct{})
	go func() { wg.Wait(); close(fin) }()
	select {
	case <-fin:
	case <-time.After(20 * time.Second):
		t.Errorf("DEADLOCK churn/%s: traffic and bind/unbind goroutines did not return within 20 s", e.name)
		dumpStacks()
		return
	}
	done := make(chan error, 1)
	go func() { done <- ic.Close() }()
	select {
	case <-done:
	case <-time.After(20 * time.Second):
		t.Errorf("DEADLOCK churn/%s: Close did not return within 20 s", e.name)
		dumpStacks()
		return
	}
	fmt.Printf("stress churn/%-20s binds=%d rtcp-in=%d rtp-out=%d rtcp-out=%d\n", e.name, binds.Load(), rtcpK.Load(), rtpOut.Load(), rtcpOut.Load())
}

// TestStressChurn: the name starts with TestStress on purpose, every property whose stress regex is
// `TestStress` (C10) runs it as well; C02 selects it alone.
func TestStressChurn(t *testing.T) {
	d := time.Duration(*fMillis) * time.Millisecond
	for _, e := range factories() {
		if *fOnly != "" && *fOnly != e.name {
			continue
		}
		e := e
		t.Run(e.name, func(t *testing.T) { runChurn(t, e, d) })
	}
}

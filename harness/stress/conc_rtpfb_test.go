package stress

// C09 with real goroutines (sampling / search support, never a proof: the theorems of Props/C09 are about the
// sequential history model; this test samples schedules of parallel senders on one rtpfb.Interceptor).
//
// Eight goroutines released together write RTP through eight writers of the SAME rtpfb interceptor - four
// streams that negotiated transport-wide CC (every packet carries a number unique over all streams) and four
// that did not (keyed by SSRC + RTP sequence number).  One more packet is written alone afterwards, so it is
// the last one sent.  Then feedback acknowledging every packet (TWCC feedback with run-length and
// status-vector chunks, an RFC 8888 report per non-TWCC stream; arrival flags by a fixed rule) is delivered
// through the RTCP reader, twice.  The property says every acknowledgement names a packet that was really
// sent, with that packet's size and exactly the status the feedback encodes, and that "the aggregating
// receiver reports each sent packet at most once across all reports, in send order".  Hence, over all
// reports attached by the interceptor, in reading order:
//   * PacketReport.SequenceNumber is strictly increasing, and increasing in the order in which each
//     goroutine wrote its packets;
//   * every PacketReport names a sent packet (TWCC number resp. SSRC+sequence number) and carries its SSRC,
//     RTP sequence number, TWCC flag/number and size;
//   * after the complete feedback every sent packet has been reported exactly once (the last packet sent is
//     acknowledged as arrived, so nothing stays behind the report cursor);
//   * the arrival flag (and, for TWCC, the arrival time; for RFC 8888 the ECN mark) is the one the feedback
//     encodes.  In the trials where feedback is ALSO read while the writers are running, a packet can be
//     reported before its acknowledgement was read ("in transit": Arrived=false); there only
//     "Arrived implies acknowledged as arrived" is checked.

import (
	"fmt"
	"sync"
	"sync/atomic"
	"testing"
	"time"

	"github.com/pion/interceptor"
	"github.com/pion/interceptor/pkg/rtpfb"
	"github.com/pion/rtcp"
	"github.com/pion/rtp"
)

type rtpfbSent struct {
	ssrc    uint32
	seq     uint16
	isTWCC  bool
	twcc    uint16
	size    int
	arrived bool
	writer  int // goroutine
	k       int // position in that goroutine's write order
}

// twccFeedbackFor acknowledges the numbers first..first+count-1 in packets of at most 1800 statuses, using
// run-length chunks for the first half of each packet and one-bit status vectors (last one padded) for the rest.
// arrival[x] is the arrival time a decoder must compute for a received number.
func twccFeedbackFor(first uint16, count int, arrived func(uint16) bool, arrival map[uint16]time.Time) []rtcp.Packet {
	var out []rtcp.Packet
	fbCount := uint8(0)
	for off := 0; off < count; off += 1800 {
		n := min(1800, count-off)
		base := first + uint16(off)
		ref := uint32(1000 + off)
		fb := &rtcp.TransportLayerCC{SenderSSRC: 77, MediaSSRC: 1, BaseSequenceNumber: base, PacketStatusCount: uint16(n),
			ReferenceTime: ref, FbPktCount: fbCount}
		fbCount++
		at := time.Time{}.Add(time.Duration(ref) * 64 * time.Millisecond)
		sym := func(i int) uint16 {
			if arrived(base + uint16(i)) {
				return rtcp.TypeTCCPacketReceivedSmallDelta
			}
			return rtcp.TypeTCCPacketNotReceived
		}
		i := 0
		for i < n/2 { // run-length chunks
			j := i
			for j < n/2 && sym(j) == sym(i) {
				j++
			}
			fb.PacketChunks = append(fb.PacketChunks, &rtcp.RunLengthChunk{Type: rtcp.TypeTCCRunLengthChunk, PacketStatusSymbol: sym(i), RunLength: uint16(j - i)})
			i = j
		}
		for ; i < n; i += 14 { // one-bit status vectors, 14 symbols each, the last one padded with "not received"
			c := &rtcp.StatusVectorChunk{Type: rtcp.TypeTCCStatusVectorChunk, SymbolSize: rtcp.TypeTCCSymbolSizeOneBit}
			for k := i; k < i+14; k++ {
				if k < n {
					c.SymbolList = append(c.SymbolList, sym(k))
				} else {
					c.SymbolList = append(c.SymbolList, rtcp.TypeTCCPacketNotReceived)
				}
			}
			fb.PacketChunks = append(fb.PacketChunks, c)
		}
		for i := 0; i < n; i++ {
			if sym(i) == rtcp.TypeTCCPacketReceivedSmallDelta {
				fb.RecvDeltas = append(fb.RecvDeltas, &rtcp.RecvDelta{Type: rtcp.TypeTCCPacketReceivedSmallDelta, Delta: 250})
				at = at.Add(250 * time.Microsecond)
				if arrival != nil {
					arrival[base+uint16(i)] = at
				}
			}
		}
		size, unpadded := fb.MarshalSize(), 20+2*len(fb.PacketChunks)+len(fb.RecvDeltas)
		fb.Header = rtcp.Header{Padding: size != unpadded, Count: rtcp.FormatTCC, Type: rtcp.TypeTransportSpecificFeedback, Length: uint16(size/4 - 1)}
		out = append(out, fb)
	}
	return out
}

func TestConserveRtpfbParallelSenders(t *testing.T) {
	const writers = 8 // 1..4 TWCC streams, 5..8 not
	const per = 400
	const total = writers*per + 1
	deadline := time.Now().Add(time.Duration(*fMillis) * time.Millisecond)
	trials := 0
	for trials == 0 || time.Now().Before(deadline) {
		trials++
		live := trials%2 == 0 // feedback also read while the writers run
		f, err := rtpfb.NewInterceptor()
		if err != nil {
			t.Fatal(err)
		}
		ic, err := f.NewInterceptor("c")
		if err != nil {
			t.Fatal(err)
		}
		firstTwcc := uint16(65536 - 900 + trials*1013) // some trials cross the 16-bit wrap
		firstSeq := func(w int) uint16 { return uint16(65536 - 150*w + trials*31) }
		var nextTwcc atomic.Uint32 // numbers handed out so far (offset from firstTwcc)
		var done [writers + 1]atomic.Uint32
		var sent [writers + 2][]rtpfbSent
		var ws [writers + 1]interceptor.RTPWriter
		bottom := interceptor.RTPWriterFunc(func(h *rtp.Header, p []byte, _ interceptor.Attributes) (int, error) { return len(p), nil })
		for w := 1; w <= writers; w++ {
			si := info(uint32(w))
			if w > writers/2 {
				si.RTPHeaderExtensions = nil
			}
			ws[w] = ic.BindLocalStream(si, bottom)
		}
		twccArrived := func(x uint16) bool { return x%5 != 0 }
		seqArrived := func(ssrc uint32, s uint16) bool { return (uint32(s)+ssrc)%4 != 1 }
		write := func(w, slot, k int, final bool) error {
			seq := firstSeq(w) + uint16(k)
			h := &rtp.Header{Version: 2, SSRC: uint32(w), PayloadType: 96, SequenceNumber: seq, Timestamp: uint32(k) * 90}
			rec := rtpfbSent{ssrc: uint32(w), seq: seq, writer: slot, k: k}
			if w <= writers/2 {
				x := firstTwcc + uint16(nextTwcc.Add(1)-1)
				h.Extension, h.ExtensionProfile = true, 0xBEDE
				if err := h.SetExtension(5, []byte{byte(x >> 8), byte(x)}); err != nil {
					return err
				}
				rec.isTWCC, rec.twcc, rec.arrived = true, x, twccArrived(x) || final
			} else {
				rec.arrived = seqArrived(uint32(w), seq) || final
			}
			payload := make([]byte, 10+int(seq%50))
			rec.size = h.MarshalSize() + len(payload)
			sent[slot] = append(sent[slot], rec)
			_, err := ws[w].Write(h, payload, interceptor.Attributes{})
			return err
		}

		// the RTCP side: each Read returns the compound the test put into `pending`
		var pending []byte
		rr := ic.BindRTCPReader(interceptor.RTCPReaderFunc(func(b []byte, a interceptor.Attributes) (int, interceptor.Attributes, error) {
			return copy(b, pending), a, nil
		}))
		var reports []rtpfb.PacketReport
		rbuf := make([]byte, 1<<18)
		read := func(pkts []rtcp.Packet) error {
			raw, err := rtcp.Marshal(pkts)
			if err != nil {
				return err
			}
			if len(raw) > len(rbuf) {
				return fmt.Errorf("harness: compound of %d bytes", len(raw))
			}
			pending = raw
			_, attr, err := rr.Read(rbuf, interceptor.Attributes{})
			if err != nil {
				return err
			}
			if r, ok := attr.Get(rtpfb.CCFBAttributesKey).(rtpfb.Report); ok {
				reports = append(reports, r.PacketReports...)
			}
			return nil
		}
		ccfbFor := func(w int, from, to uint32, finalSeq int) rtcp.CCFeedbackReportBlock { // positions from..to-1 of writer w
			blk := rtcp.CCFeedbackReportBlock{MediaSSRC: uint32(w), BeginSequence: firstSeq(w) + uint16(from)}
			for k := from; k < to; k++ {
				s := firstSeq(w) + uint16(k)
				m := rtcp.CCFeedbackMetricBlock{Received: seqArrived(uint32(w), s) || int(k) == finalSeq}
				if m.Received {
					m.ECN, m.ArrivalTimeOffset = rtcp.ECN(s%4), 10
				}
				blk.MetricBlocks = append(blk.MetricBlocks, m)
			}
			return blk
		}

		var start, wg sync.WaitGroup
		start.Add(1)
		var werr atomic.Value
		for w := 1; w <= writers; w++ {
			wg.Add(1)
			go func(w int) {
				defer wg.Done()
				start.Wait()
				for k := 0; k < per; k++ {
					if err := write(w, w, k, false); err != nil {
						werr.Store(err)
						return
					}
					done[w].Store(uint32(k + 1))
				}
			}(w)
		}
		start.Done()
		if live {
			// feedback for what has been written so far, read while the writers keep going (one RTCP read loop)
			finished := make(chan struct{})
			go func() { wg.Wait(); close(finished) }()
			var ackedTwcc uint32
			var ackedSeq [writers + 1]uint32
			for running := true; running; {
				select {
				case <-finished:
					running = false
				default:
				}
				var pkts []rtcp.Packet
				if n := nextTwcc.Load(); n > ackedTwcc {
					pkts = append(pkts, twccFeedbackFor(firstTwcc+uint16(ackedTwcc), int(n-ackedTwcc), twccArrived, nil)...)
					ackedTwcc = n
				}
				ccfb := &rtcp.CCFeedbackReport{SenderSSRC: 77, ReportTimestamp: 0x00100000}
				for w := writers/2 + 1; w <= writers; w++ {
					if n := done[w].Load(); n > ackedSeq[w] {
						ccfb.ReportBlocks = append(ccfb.ReportBlocks, ccfbFor(w, ackedSeq[w], n, -1))
						ackedSeq[w] = n
					}
				}
				if len(ccfb.ReportBlocks) > 0 {
					pkts = append(pkts, ccfb)
				}
				if len(pkts) > 0 {
					if err := read(pkts); err != nil {
						t.Fatalf("rtcp read: %v", err)
					}
				}
			}
		}
		wg.Wait()
		if err, _ := werr.Load().(error); err != nil {
			t.Fatalf("write: %v", err)
		}
		// the last packet sent: alone, on a non-TWCC stream in odd trials and on a TWCC stream in the others
		finalW := writers
		if trials%4 < 2 {
			finalW = 1
		}
		if err := write(finalW, writers+1, per, true); err != nil {
			t.Fatalf("write: %v", err)
		}
		// complete feedback in ONE compound (so every flag is known when the report is built), read twice
		arrival := map[uint16]time.Time{}
		finalTwcc := firstTwcc + uint16(nextTwcc.Load()) - 1
		pkts := twccFeedbackFor(firstTwcc, int(nextTwcc.Load()), func(x uint16) bool {
			return twccArrived(x) || (finalW <= writers/2 && x == finalTwcc)
		}, arrival)
		ccfb := &rtcp.CCFeedbackReport{SenderSSRC: 77, ReportTimestamp: 0x00100000}
		for w := writers/2 + 1; w <= writers; w++ {
			n, fin := per, -1
			if w == finalW {
				n, fin = per+1, per
			}
			ccfb.ReportBlocks = append(ccfb.ReportBlocks, ccfbFor(w, 0, uint32(n), fin))
		}
		pkts = append(pkts, ccfb)
		for i := 0; i < 2; i++ {
			if err := read(pkts); err != nil {
				t.Fatalf("rtcp read: %v", err)
			}
		}
		_ = ic.Close()

		// ---- the invariants
		type key struct {
			isTWCC bool
			ssrc   uint32
			n      uint16
		}
		byKey := map[key]*rtpfbSent{}
		for slot := range sent {
			for i := range sent[slot] {
				r := &sent[slot][i]
				if r.isTWCC {
					byKey[key{true, 0, r.twcc}] = r
				} else {
					byKey[key{false, r.ssrc, r.seq}] = r
				}
			}
		}
		if len(byKey) != total {
			t.Fatalf("harness: %d distinct packets sent, want %d", len(byKey), total)
		}
		var problems []string
		problem := func(format string, a ...any) {
			if len(problems) < 4 {
				problems = append(problems, fmt.Sprintf(format, a...))
			}
		}
		seen := map[*rtpfbSent]int{}
		lastK := map[int]int{} // goroutine -> position of its latest reported packet
		for i, p := range reports {
			if i > 0 && p.SequenceNumber <= reports[i-1].SequenceNumber {
				problem("report sequence number %d (ssrc %d rtp seq %d) follows %d: not strictly increasing, i.e. not in send order / reported twice",
					p.SequenceNumber, p.SSRC, p.RTPSequenceNumber, reports[i-1].SequenceNumber)
			}
			k := key{false, p.SSRC, p.RTPSequenceNumber}
			if p.IsTWCC {
				k = key{true, 0, p.TWCCSequenceNumber}
			}
			r := byKey[k]
			if r == nil {
				problem("report %d names a packet that was never sent: %+v", p.SequenceNumber, p)
				continue
			}
			seen[r]++
			if p.SSRC != r.ssrc || p.RTPSequenceNumber != r.seq || p.IsTWCC != r.isTWCC || (r.isTWCC && p.TWCCSequenceNumber != r.twcc) || p.Size != r.size {
				problem("report %d does not carry the sent packet's data: got ssrc=%d seq=%d twcc=%v/%d size=%d, sent ssrc=%d seq=%d twcc=%v/%d size=%d",
					p.SequenceNumber, p.SSRC, p.RTPSequenceNumber, p.IsTWCC, p.TWCCSequenceNumber, p.Size, r.ssrc, r.seq, r.isTWCC, r.twcc, r.size)
			}
			if p.SequenceNumber >= total {
				problem("report sequence number %d although only %d packets were sent", p.SequenceNumber, total)
			}
			if prev, ok := lastK[r.writer]; ok && prev >= r.k {
				problem("goroutine %d wrote its packet #%d before #%d, the reports list them the other way round", r.writer, r.k, prev)
			}
			lastK[r.writer] = r.k
			if p.Arrived && !r.arrived {
				problem("report %d (ssrc %d seq %d twcc %v/%d): Arrived=true but the feedback says not received", p.SequenceNumber, p.SSRC, p.RTPSequenceNumber, p.IsTWCC, p.TWCCSequenceNumber)
			}
			if !live {
				if p.Arrived != r.arrived {
					problem("report %d (ssrc %d seq %d twcc %v/%d): Arrived=%v, the feedback says %v", p.SequenceNumber, p.SSRC, p.RTPSequenceNumber, p.IsTWCC, p.TWCCSequenceNumber, p.Arrived, r.arrived)
				}
				if r.isTWCC && r.arrived && !p.Arrival.Equal(arrival[r.twcc]) {
					problem("report %d (twcc %d): arrival %v, the feedback encodes %v", p.SequenceNumber, r.twcc, p.Arrival, arrival[r.twcc])
				}
				if !r.isTWCC && r.arrived && p.ECN != rtcp.ECN(r.seq%4) {
					problem("report %d (ssrc %d seq %d): ECN %d, the feedback encodes %d", p.SequenceNumber, r.ssrc, r.seq, p.ECN, r.seq%4)
				}
			}
		}
		missing, twice := 0, 0
		var example *rtpfbSent
		for _, r := range byKey {
			switch c := seen[r]; {
			case c == 0:
				missing++
				example = r
			case c > 1:
				twice++
				example = r
			}
		}
		if missing+twice > 0 {
			problem("%d of %d sent packets were never reported and %d more than once after feedback acknowledging every packet was read twice (e.g. ssrc %d seq %d twcc %v/%d written by goroutine %d)",
				missing, total, twice, example.ssrc, example.seq, example.isTWCC, example.twcc, example.writer)
		}
		if len(problems) > 0 {
			for _, m := range problems {
				t.Errorf("CONSERVATION rtpfb-parallel-senders (trial %d, %d goroutines x %d packets, feedback during the writes: %v): %s", trials, writers, per, live, m)
			}
			return
		}
	}
	fmt.Printf("stress conserve-rtpfb-parallel-senders trials=%d packets=%d\n", trials, trials*total)
}

package stress

// C11 with real goroutines (sampling / search support, never a proof): TWO overlapping Close calls while the ticker
// loop is held inside a slow RTCP writer.  Close may be called from several places of an application at shutdown
// (the PeerConnection's Close and a deferred clean-up); io.Closer says nothing against it for the interceptors whose
// Close is idempotent.  The property (C11): Close returns only after every goroutine the interceptor started has
// finished, after which nothing more is written - so once ANY of the Close calls has returned, the loop is not
// inside the writer any more and no further Write call begins.  A single Close placed anywhere, and two Close
// calls one after the other, cannot tell "the second caller waits too" from "the second caller returns at once":
// it takes a transport that is slow at the wrong moment.  The correspondence has the scenario in virtual time for
// the kinds whose emissions it predicts (op `gateclose2`); this test runs it on the real scheduler for every
// ticker-driven interceptor: receiver reports, sender reports, TWCC feedback, RFC 8888 feedback, NACK generator,
// interval PLI.
//
// Round: bind an RTCP writer that can be told to hold every call; bind two remote and two local streams and keep
// traffic flowing from feeder goroutines; tell the writer to hold and wait until the loop is inside it; start two
// goroutines that call Close; give them time; release the writer; join.  Violations:
//   * a Close call returned while a Write call of the interceptor was still in progress;
//   * a Write call BEGAN after a Close call had returned;
//   * a Close call or a feeder did not come back (DEADLOCK).

import (
	"fmt"
	"sync"
	"sync/atomic"
	"testing"
	"time"

	"github.com/pion/interceptor"
	"github.com/pion/rtcp"
	"github.com/pion/rtp"
)

func TestConserveOverlappingClose(t *testing.T) {
	kinds := map[string]bool{"report-receiver": true, "report-sender": true, "twcc-sender": true, "rfc8888": true,
		"nack-generator": true, "intervalpli": true}
	var entries []entry
	for _, e := range factories() {
		if kinds[e.name] && (*fOnly == "" || *fOnly == e.name) {
			entries = append(entries, e)
		}
	}
	if len(entries) == 0 {
		return
	}
	share := time.Duration(*fMillis) * time.Millisecond / time.Duration(len(entries))
	for _, e := range entries {
		rounds, held := 0, 0
		deadline := time.Now().Add(share)
		for r := 0; r == 0 || time.Now().Before(deadline); r++ {
			wasHeld, problems := overlappingCloseRound(e, r)
			rounds++
			if wasHeld {
				held++
			}
			if len(problems) > 0 {
				for _, m := range problems {
					t.Errorf("%s", m)
				}
				return
			}
		}
		fmt.Printf("stress conserve-overlapping-close-%s rounds=%d loop-held-in-writer=%d\n", e.name, rounds, held)
	}
}

func overlappingCloseRound(e entry, round int) (wasHeld bool, problems []string) {
	ic := must(must(e.mk()).NewInterceptor("overlap"))
	var (
		hold           atomic.Bool
		gate           = make(chan struct{})
		inWrite        atomic.Int32
		closeReturned  atomic.Bool
		lateStarts     atomic.Int32
		earlyReturns   atomic.Int32
		writesFinished atomic.Int64
	)
	ic.BindRTCPWriter(interceptor.RTCPWriterFunc(func(pkts []rtcp.Packet, _ interceptor.Attributes) (int, error) {
		if closeReturned.Load() {
			lateStarts.Add(1)
		}
		inWrite.Add(1)
		if hold.Load() {
			<-gate
		}
		inWrite.Add(-1)
		writesFinished.Add(1)
		return len(pkts), nil
	}))
	var stop atomic.Bool
	var feeders sync.WaitGroup
	feed := func(f func(k int)) {
		feeders.Add(1)
		go func() {
			defer feeders.Done()
			for k := 0; !stop.Load(); k++ {
				f(k)
				time.Sleep(150 * time.Microsecond)
			}
		}()
	}
	for s := uint32(1); s <= 2; s++ {
		ssrc := s
		seq := uint16(round * 7)
		reader := ic.BindRemoteStream(info(ssrc), interceptor.RTPReaderFunc(func(b []byte, a interceptor.Attributes) (int, interceptor.Attributes, error) {
			seq += 2 // every second packet is missing: the NACK generator has something to ask for
			h := rtp.Header{Version: 2, SSRC: ssrc, PayloadType: 96, SequenceNumber: seq, Timestamp: uint32(seq) * 90}
			_ = h.SetExtension(5, []byte{byte(seq >> 8), byte(seq)})
			n, err := h.MarshalTo(b)
			if err != nil {
				return 0, nil, err
			}
			n += copy(b[n:], []byte{1, 2, 3, 4})
			return n, a, nil
		}))
		feed(func(int) { buf := make([]byte, 1500); _, _, _ = reader.Read(buf, interceptor.Attributes{}) })
		writer := ic.BindLocalStream(info(ssrc+10), interceptor.RTPWriterFunc(func(_ *rtp.Header, p []byte, _ interceptor.Attributes) (int, error) {
			return len(p), nil
		}))
		feed(func(k int) {
			_, _ = writer.Write(&rtp.Header{Version: 2, SSRC: ssrc + 10, PayloadType: 96, SequenceNumber: uint16(k), Timestamp: uint32(k) * 90}, []byte{1, 2, 3}, interceptor.Attributes{})
		})
	}
	time.Sleep(2 * time.Millisecond)
	hold.Store(true)
	for limit := time.Now().Add(300 * time.Millisecond); inWrite.Load() == 0 && time.Now().Before(limit); {
		time.Sleep(100 * time.Microsecond)
	}
	wasHeld = inWrite.Load() > 0
	var closes sync.WaitGroup
	closer := func() {
		defer closes.Done()
		_ = ic.Close()
		if inWrite.Load() > 0 {
			earlyReturns.Add(1)
		}
		closeReturned.Store(true)
	}
	closes.Add(2)
	go closer()
	time.Sleep(time.Duration(100+round%5*200) * time.Microsecond)
	go closer()
	time.Sleep(2 * time.Millisecond)
	hold.Store(false)
	close(gate)
	waitFor := func(wg *sync.WaitGroup, what string) {
		done := make(chan struct{})
		go func() { wg.Wait(); close(done) }()
		select {
		case <-done:
		case <-time.After(10 * time.Second):
			problems = append(problems, fmt.Sprintf("DEADLOCK overlapping-close (%s, round %d): %s did not come back within 10 s", e.name, round, what))
		}
	}
	waitFor(&closes, "a Close call")
	stop.Store(true)
	waitFor(&feeders, "a reader/writer of a bound stream (after Close)")
	time.Sleep(4 * time.Millisecond) // a few more intervals: anything written now is written after Close
	if n := earlyReturns.Load(); n > 0 {
		problems = append(problems, fmt.Sprintf("CONSERVATION overlapping-close (%s, round %d): %d of two overlapping Close calls returned while the interceptor's loop was still inside RTCPWriter.Write (Close returns only after every goroutine it started has finished)", e.name, round, n))
	}
	if n := lateStarts.Load(); n > 0 {
		problems = append(problems, fmt.Sprintf("CONSERVATION overlapping-close (%s, round %d): %d RTCP Write call(s) began after a Close call had returned (%d writes in all)", e.name, round, n, writesFinished.Load()))
	}
	return wasHeld, problems
}

package stress

// C12 — "after Unbind the per-stream memory becomes collectable", with real goroutines
// (sampling / search support only: the proofs of Props/C12.lean are about the sequential models).
//
// A stream is identified by its SSRC.  The StreamInfo an application hands to Unbind*Stream need
// not be the value it used at Bind: it may carry only the SSRC, or the feedback / header-extension
// lists may have been renegotiated in between, and an option such as nack.GeneratorStreamsFilter may
// be a stateful predicate whose answer has changed.  For EVERY interceptor kind of the `sizes`
// component that implements Unbind*Stream (NACK generator and responder, receiver and sender
// reports, FlexFEC encoder, jitter buffer) several streams carry concurrent traffic; each stream's
// goroutine stops at its own (staggered) time and unbinds its stream with one of these
// StreamInfos while the other streams are still running.
//
// Invariant (from the property: memory is bounded by the number of CURRENTLY bound streams): once
// every stream is unbound, every entry of the VerifSizes vector (the `len` of the per-stream
// containers, build tag verif) is 0 — exactly what Unbind with the original StreamInfo gives.
// All these containers are released synchronously inside Unbind (under the interceptor's lock), so
// the check needs no waiting and does not depend on timing.  A violation prints
// `CONSERVATION sizes-unbind-info …`.
//
// The kinds without Unbind*Stream (twcc, rfc8888, stats, rtpfb, pacing) release nothing whatever
// the StreamInfo is: that is recorded as F-C12a/b, not re-reported here.

import (
	"fmt"
	"sort"
	"strings"
	"sync"
	"testing"
	"time"

	"github.com/pion/interceptor"
	"github.com/pion/interceptor/pkg/flexfec"
	"github.com/pion/interceptor/pkg/jitterbuffer"
	"github.com/pion/interceptor/pkg/nack"
	"github.com/pion/interceptor/pkg/report"
	"github.com/pion/rtcp"
	"github.com/pion/rtp"
)

// unbindInfoVariants: what an application may hand to Unbind*Stream for a stream bound with `bound`.
var unbindInfoVariants = []struct {
	name string
	mk   func(bound *interceptor.StreamInfo) *interceptor.StreamInfo
}{
	{"same", func(b *interceptor.StreamInfo) *interceptor.StreamInfo { return b }},
	{"ssrc-only", func(b *interceptor.StreamInfo) *interceptor.StreamInfo { return &interceptor.StreamInfo{SSRC: b.SSRC} }},
	{"feedback-removed", func(b *interceptor.StreamInfo) *interceptor.StreamInfo {
		c := *b
		c.RTCPFeedback = nil
		return &c
	}},
	{"extensions-removed", func(b *interceptor.StreamInfo) *interceptor.StreamInfo {
		c := *b
		c.RTPHeaderExtensions = nil
		return &c
	}},
	{"renegotiated", func(b *interceptor.StreamInfo) *interceptor.StreamInfo {
		return &interceptor.StreamInfo{
			SSRC: b.SSRC, ClockRate: 48000, PayloadType: 111, MimeType: "audio/opus", Channels: 2,
			RTCPFeedback:        []interceptor.RTCPFeedback{{Type: "goog-remb"}},
			RTPHeaderExtensions: []interceptor.RTPHeaderExtension{{URI: "urn:ietf:params:rtp-hdrext:sdes:mid", ID: 9}},
		}
	}},
}

type unbindKind struct {
	name    string
	local   bool // streams are bound with BindLocalStream (writers) / BindRemoteStream (readers)
	streams int
	mk      func() (ic interceptor.Interceptor, sizes func() map[string]int, beforeUnbind func(ssrc uint32))
}

func unbindKinds() []unbindKind {
	nullRTCP := interceptor.RTCPWriterFunc(func([]rtcp.Packet, interceptor.Attributes) (int, error) { return 0, nil })
	nackgen := func(opts ...nack.GeneratorOption) (interceptor.Interceptor, func() map[string]int) {
		opts = append(opts, nack.GeneratorSize(512), nack.GeneratorInterval(time.Millisecond), nack.GeneratorMaxNacksPerPacket(3))
		ic := must(must(nack.NewGeneratorInterceptor(opts...)).NewInterceptor("c"))
		ic.BindRTCPWriter(nullRTCP)
		return ic, ic.(*nack.GeneratorInterceptor).VerifSizes
	}
	return []unbindKind{
		{"nackgen", false, 5, func() (interceptor.Interceptor, func() map[string]int, func(uint32)) {
			ic, sz := nackgen()
			return ic, sz, nil
		}},
		// non-default option: a stateful allow-list, revoked just before the stream is unbound
		{"nackgen-filter", false, 5, func() (interceptor.Interceptor, func() map[string]int, func(uint32)) {
			var mu sync.Mutex
			revoked := map[uint32]bool{}
			ic, sz := nackgen(nack.GeneratorStreamsFilter(func(i *interceptor.StreamInfo) bool {
				mu.Lock()
				defer mu.Unlock()
				return !revoked[i.SSRC]
			}))
			return ic, sz, func(ssrc uint32) { mu.Lock(); revoked[ssrc] = true; mu.Unlock() }
		}},
		{"nackresp", true, 5, func() (interceptor.Interceptor, func() map[string]int, func(uint32)) {
			ic := must(must(nack.NewResponderInterceptor(nack.ResponderSize(64))).NewInterceptor("c"))
			return ic, ic.(*nack.ResponderInterceptor).VerifSizes, nil
		}},
		{"flexfec", true, 5, func() (interceptor.Interceptor, func() map[string]int, func(uint32)) {
			ic := must(must(flexfec.NewFecInterceptor(flexfec.NumMediaPackets(5), flexfec.NumFECPackets(2))).NewInterceptor("c"))
			return ic, ic.(*flexfec.FecInterceptor).VerifSizes, nil
		}},
		{"rr", false, 5, func() (interceptor.Interceptor, func() map[string]int, func(uint32)) {
			ic := must(must(report.NewReceiverInterceptor(report.ReceiverInterval(time.Millisecond))).NewInterceptor("c"))
			ic.BindRTCPWriter(nullRTCP)
			return ic, ic.(*report.ReceiverInterceptor).VerifSizes, nil
		}},
		{"sr", true, 5, func() (interceptor.Interceptor, func() map[string]int, func(uint32)) {
			ic := must(must(report.NewSenderInterceptor(report.SenderInterval(time.Millisecond))).NewInterceptor("c"))
			ic.BindRTCPWriter(nullRTCP)
			return ic, ic.(*report.SenderInterceptor).VerifSizes, nil
		}},
		// one stream only: the jitter-buffer interceptor shares one queue between all streams (F-C12d)
		{"jitter", false, 1, func() (interceptor.Interceptor, func() map[string]int, func(uint32)) {
			ic := must(must(jitterbuffer.NewInterceptor()).NewInterceptor("c"))
			return ic, ic.(*jitterbuffer.ReceiverInterceptor).VerifSizes, nil
		}},
	}
}

func showSizes(m map[string]int) string {
	ks := make([]string, 0, len(m))
	for k := range m {
		ks = append(ks, k)
	}
	sort.Strings(ks)
	parts := make([]string, 0, len(ks))
	for _, k := range ks {
		parts = append(parts, fmt.Sprintf("%s=%d", k, m[k]))
	}
	return strings.Join(parts, ",")
}

func TestConserveSizesUnbindInfo(t *testing.T) {
	kinds := unbindKinds()
	per := time.Duration(*fMillis) * time.Millisecond / 4 // traffic per kind
	if per < 20*time.Millisecond {
		per = 20 * time.Millisecond
	}
	for ki, kd := range kinds {
		ic, sizes, beforeUnbind := kd.mk()
		start := time.Now()
		var wg sync.WaitGroup
		var mu sync.Mutex
		packets := 0
		used := make([]string, kd.streams)
		for i := 0; i < kd.streams; i++ {
			ssrc := uint32(1 + i)
			bound := info(ssrc)
			// the variant rotates with the kind, so every kind meets every variant over the streams
			v := unbindInfoVariants[(i+ki+1)%len(unbindInfoVariants)]
			used[i] = v.name
			// staggered ends: a stream is unbound while the others still carry traffic
			deadline := start.Add(per * time.Duration(i+2) / time.Duration(kd.streams+1))
			var step func(seq uint32)
			if kd.local {
				w := ic.BindLocalStream(bound, interceptor.RTPWriterFunc(func(h *rtp.Header, p []byte, _ interceptor.Attributes) (int, error) {
					return h.MarshalSize() + len(p), nil
				}))
				payload := []byte{1, 2, 3, 4, 5, 6, 7, 8}
				step = func(seq uint32) {
					h := plainHeader(seq)
					h.SSRC = ssrc
					_, _ = w.Write(h, payload, interceptor.Attributes{})
				}
			} else {
				var cur uint32
				r := ic.BindRemoteStream(bound, interceptor.RTPReaderFunc(func(b []byte, a interceptor.Attributes) (int, interceptor.Attributes, error) {
					p := rtp.Packet{Header: *plainHeader(cur), Payload: []byte{1, 2, 3}}
					p.SSRC = ssrc
					n, err := p.MarshalTo(b)
					return n, a, err
				}))
				buf := make([]byte, 1500)
				step = func(seq uint32) {
					cur = seq
					_, _, _ = r.Read(buf, interceptor.Attributes{})
				}
			}
			wg.Add(1)
			go func() {
				defer wg.Done()
				n := 0
				var seq uint32
				for time.Now().Before(deadline) {
					for j := 0; j < 40; j++ {
						seq++
						if seq%7 == 0 { // steady loss: the NACK generator has something to count
							continue
						}
						step(seq)
						n++
					}
					time.Sleep(100 * time.Microsecond)
				}
				if beforeUnbind != nil {
					beforeUnbind(ssrc)
				}
				if kd.local {
					ic.UnbindLocalStream(v.mk(bound))
				} else {
					ic.UnbindRemoteStream(v.mk(bound))
				}
				mu.Lock()
				packets += n
				mu.Unlock()
			}()
		}
		wg.Wait()
		sz := sizes()
		fmt.Printf("stress conserve-sizes-unbind-info-%s streams=%d packets=%d after-unbind=%s\n", kd.name, kd.streams, packets, showSizes(sz))
		for _, key := range sortedKeys(sz) {
			if sz[key] != 0 {
				t.Errorf("CONSERVATION sizes-unbind-info: %s: after Unbind of all %d streams (StreamInfo handed to Unbind per stream: %s) the interceptor still holds %s; "+
					"a stream is identified by its SSRC, Unbind must release its containers whatever else the StreamInfo carries",
					kd.name, kd.streams, strings.Join(used, ","), showSizes(sz))
				break
			}
		}
		_ = ic.Close()
	}
}

func sortedKeys(m map[string]int) []string {
	ks := make([]string, 0, len(m))
	for k := range m {
		ks = append(ks, k)
	}
	sort.Strings(ks)
	return ks
}

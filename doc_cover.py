#!/usr/bin/env python3
"""doc_cover.py: regenerates DESIGN.md §13 (between the COVER markers): for every package of /repo, which functions
are (a) re-translated from source on every run AND proved equal to the model (`Facts/Fn*.lean` mentions the generated
definition), (b) re-translated only, (c) covered by a hand-written model + correspondence only / not modelled."""
import os, re, subprocess, glob, collections
R = os.path.dirname(os.path.abspath(__file__))
ext = os.path.join(R, "build", "extract")
out = subprocess.run([ext, "-repo", os.environ.get("VERIF_REPO", "/repo"), "-fact", "FnSurvey"], capture_output=True, text=True).stdout
allf = collections.OrderedDict()
for l in out.splitlines():
    m = re.match(r"(OK|NO)\s+(\S+)", l)
    if m:
        allf[m.group(2)] = m.group(1)
fnlist = [l.strip() for l in open(os.path.join(R, "extract", "fn.list")) if l.strip() and not l.startswith("#")]
facts = ""
for f in glob.glob(os.path.join(R, "lean", "Interceptor", "Facts", "Fn*.lean")) + glob.glob(os.path.join(R, "lean", "Interceptor", "Props", "*Src.lean")):
    facts += open(f).read()
rows = collections.OrderedDict()
for k in allf:
    pkg = k.split(".")[0]
    r = rows.setdefault(pkg, {"proved": [], "translated": [], "other": 0})
    lean = k.replace(".", "_")
    short = k.split(".", 1)[1]
    if k in fnlist and re.search(r"\b" + re.escape(lean) + r"\b", facts):
        r["proved"].append(short)
    elif k in fnlist:
        r["translated"].append(short)
    else:
        r["other"] += 1
lines = ["| package | functions | re-translated and proved equal to the model | re-translated only | hand model + correspondence, or not modelled |", "|---|---|---|---|---|"]
tp = tt = to = 0
for pkg, r in rows.items():
    n = len(r["proved"]) + len(r["translated"]) + r["other"]
    tp += len(r["proved"]); tt += len(r["translated"]); to += r["other"]
    lines.append(f"| {pkg} | {n} | {', '.join(r['proved']) or '—'} | {', '.join(r['translated']) or '—'} | {r['other']} |")
lines.append(f"| **total** | {tp+tt+to} | {tp} | {tt} | {to} |")
p = os.path.join(R, "DESIGN.md")
s = open(p).read()
s = re.sub(r"<!-- COVER BEGIN -->.*?<!-- COVER END -->", "<!-- COVER BEGIN -->\n" + "\n".join(lines) + "\n<!-- COVER END -->", s, flags=re.S)
open(p, "w").write(s)
print(tp, tt, to)

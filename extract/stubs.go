package main

func genLifecycleFacts(w *world, dump bool) string { return "" }
func genRetentionFacts(w *world, dump bool) string { return "" }
func genSizeFacts(w *world, dump bool) string      { return "" }
func genIndexFacts(w *world, dump bool) string     { return "" }
func genWrapperFacts(w *world, dump bool) string   { return "" }

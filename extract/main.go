// Command extract is the translator of /verif: it reads pion/interceptor's source (type-checked
// with go/packages) and regenerates Lean data files ("facts") that the Lean side closes with
// `decide`.  It is deliberately a *syntactic* pass over typed ASTs: lock sets, lifecycle
// shapes, retention sites, container growth sites, index sites.
package main

import (
	"flag"
	"fmt"
	"go/ast"
	"go/token"
	"go/types"
	"os"
	"sort"
	"strings"

	"golang.org/x/tools/go/packages"
)

const modPath = "github.com/pion/interceptor"

var skipPkgs = map[string]bool{
	modPath + "/examples/nack":  true,
	modPath + "/internal/test":  true,
	modPath + "/pkg/mock":       true,
	modPath + "/pkg/verifhooks": true,
}

type world struct {
	fset *token.FileSet
	pkgs []*packages.Package
	// field var -> "pkg.Struct.field"
	fieldName map[*types.Var]string
	// field var -> struct "pkg.Struct"
	fieldStruct map[*types.Var]string
}

func load(repo string) *world {
	os.Setenv("PATH", "/opt/veriftools/go1.26.8/bin:"+os.Getenv("PATH"))
	for _, kv := range [][2]string{{"GOFLAGS", "-mod=mod"}, {"GOPROXY", "off"}, {"GOTOOLCHAIN", "local"}, {"GOSUMDB", "off"}} {
		os.Setenv(kv[0], kv[1])
	}
	env := os.Environ()
	cfg := &packages.Config{
		Mode: packages.NeedName | packages.NeedFiles | packages.NeedSyntax | packages.NeedTypes |
			packages.NeedTypesInfo | packages.NeedImports | packages.NeedDeps,
		Dir: repo, Env: env, Tests: false,
	}
	pkgs, err := packages.Load(cfg, "./...")
	if err != nil {
		fmt.Fprintln(os.Stderr, "load:", err)
		os.Exit(2)
	}
	w := &world{fieldName: map[*types.Var]string{}, fieldStruct: map[*types.Var]string{}}
	for _, p := range pkgs {
		if skipPkgs[p.PkgPath] || !strings.HasPrefix(p.PkgPath, modPath) {
			continue
		}
		if len(p.Errors) > 0 {
			fmt.Fprintln(os.Stderr, "package errors:", p.PkgPath, p.Errors)
			os.Exit(2)
		}
		w.pkgs = append(w.pkgs, p)
		w.fset = p.Fset
	}
	sort.Slice(w.pkgs, func(i, j int) bool { return w.pkgs[i].PkgPath < w.pkgs[j].PkgPath })
	for _, p := range w.pkgs {
		sc := p.Types.Scope()
		for _, n := range sc.Names() {
			tn, ok := sc.Lookup(n).(*types.TypeName)
			if !ok {
				continue
			}
			st, ok := tn.Type().Underlying().(*types.Struct)
			if !ok {
				continue
			}
			sname := shortPkg(p.PkgPath) + "." + tn.Name()
			for i := 0; i < st.NumFields(); i++ {
				f := st.Field(i)
				w.fieldName[f] = sname + "." + f.Name()
				w.fieldStruct[f] = sname
			}
		}
	}
	return w
}

func shortPkg(path string) string {
	if path == modPath {
		return "interceptor"
	}
	s := strings.TrimPrefix(path, modPath+"/")
	s = strings.TrimPrefix(s, "pkg/")
	s = strings.ReplaceAll(s, "internal/", "")
	return strings.ReplaceAll(s, "/", "_")
}

func (w *world) pos(p token.Pos) string {
	ps := w.fset.Position(p)
	f := ps.Filename
	if i := strings.Index(f, "/pkg/"); i >= 0 {
		f = f[i+1:]
	} else if i := strings.Index(f, "/internal/"); i >= 0 {
		f = f[i+1:]
	} else if i := strings.LastIndex(f, "/"); i >= 0 {
		f = f[i+1:]
	}
	return fmt.Sprintf("%s:%d", f, ps.Line)
}

func leanStr(s string) string {
	s = strings.ReplaceAll(s, "\\", "\\\\")
	s = strings.ReplaceAll(s, "\"", "\\\"")
	s = strings.ReplaceAll(s, "\n", " ")
	s = strings.ReplaceAll(s, "\t", " ")
	return "\"" + s + "\""
}

func main() {
	repo := flag.String("repo", "/repo", "repository root")
	fact := flag.String("fact", "", "which fact file to generate")
	out := flag.String("out", "", "output .lean file")
	dump := flag.Bool("dump", false, "also print a human-readable dump to stdout")
	flag.Parse()
	w := load(*repo)
	var src string
	switch *fact {
	case "LockFacts":
		src = genLockFacts(w, *dump)
	case "LifecycleFacts":
		src = genLifecycleFacts(w, *dump)
	case "RetentionFacts":
		src = genRetentionFacts(w, *dump)
	case "SizeFacts":
		src = genSizeFacts(w, *dump)
	case "IndexFacts":
		src = genIndexFacts(w, *dump)
	case "ConstFacts":
		src = genConstFacts(w, *dump)
	case "WrapperFacts":
		src = genWrapperFacts(w, *dump)
	default:
		if *fact == "FnSurvey" {
			fmt.Print(genFnSurvey(w))
			return
		}
		if strings.HasPrefix(*fact, "Fn_") {
			src = genFnDefs(w, *dump, strings.TrimPrefix(*fact, "Fn_"))
			break
		}
		fmt.Fprintln(os.Stderr, "unknown -fact", *fact)
		os.Exit(2)
	}
	if *out == "" {
		fmt.Print(src)
		return
	}
	if err := os.WriteFile(*out, []byte(src), 0o644); err != nil {
		fmt.Fprintln(os.Stderr, err)
		os.Exit(2)
	}
	fmt.Printf("%s: %d bytes\n", *fact, len(src))
}

// ---------------------------------------------------------------------------------------
// shared helpers over typed ASTs

// funcKey names a declared function or method: "pkg.Recv.Name" / "pkg.Name".
func funcKey(p *packages.Package, fd *ast.FuncDecl) string {
	name := fd.Name.Name
	if fd.Recv != nil && len(fd.Recv.List) > 0 {
		t := fd.Recv.List[0].Type
		if s, ok := t.(*ast.StarExpr); ok {
			t = s.X
		}
		if ix, ok := t.(*ast.IndexExpr); ok {
			t = ix.X
		}
		if id, ok := t.(*ast.Ident); ok {
			name = id.Name + "." + name
		}
	}
	return shortPkg(p.PkgPath) + "." + name
}

func objKey(f *types.Func) string {
	if f == nil || f.Pkg() == nil {
		return ""
	}
	name := f.Name()
	if sig, ok := f.Type().(*types.Signature); ok && sig.Recv() != nil {
		t := sig.Recv().Type()
		if pt, ok := t.(*types.Pointer); ok {
			t = pt.Elem()
		}
		if nt, ok := t.(*types.Named); ok {
			name = nt.Obj().Name() + "." + name
		}
	}
	return shortPkg(f.Pkg().Path()) + "." + name
}

// callee returns the statically known callee of a call, if any.
func callee(info *types.Info, call *ast.CallExpr) *types.Func {
	var id *ast.Ident
	switch f := ast.Unparen(call.Fun).(type) {
	case *ast.Ident:
		id = f
	case *ast.SelectorExpr:
		id = f.Sel
	case *ast.IndexExpr:
		if s, ok := f.X.(*ast.SelectorExpr); ok {
			id = s.Sel
		} else if i, ok := f.X.(*ast.Ident); ok {
			id = i
		}
	}
	if id == nil {
		return nil
	}
	if fn, ok := info.Uses[id].(*types.Func); ok {
		return fn
	}
	return nil
}

func isSyncType(t types.Type) bool {
	if p, ok := t.(*types.Pointer); ok {
		t = p.Elem()
	}
	if _, ok := t.Underlying().(*types.Chan); ok {
		return true
	}
	nt, ok := t.(*types.Named)
	if !ok || nt.Obj().Pkg() == nil {
		return false
	}
	switch nt.Obj().Pkg().Path() {
	case "sync":
		return true // Mutex, RWMutex, WaitGroup, Once, Map, Pool
	case "sync/atomic":
		return true
	}
	return false
}

func terminates(stmts []ast.Stmt) bool {
	if len(stmts) == 0 {
		return false
	}
	switch s := stmts[len(stmts)-1].(type) {
	case *ast.ReturnStmt:
		return true
	case *ast.BranchStmt:
		return s.Tok == token.CONTINUE || s.Tok == token.BREAK || s.Tok == token.GOTO
	case *ast.ExprStmt:
		if c, ok := s.X.(*ast.CallExpr); ok {
			if id, ok := c.Fun.(*ast.Ident); ok && id.Name == "panic" {
				return true
			}
		}
	case *ast.BlockStmt:
		return terminates(s.List)
	}
	return false
}

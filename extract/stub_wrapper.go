package main

// genWrapperFacts is a placeholder until the WrapperFacts pass is written (replace this file).
func genWrapperFacts(w *world, dump bool) string { return "" }

package main

// genLifecycleFacts is a placeholder until the LifecycleFacts pass is written (replace this file).
func genLifecycleFacts(w *world, dump bool) string { return "" }

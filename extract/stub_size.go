package main

// genSizeFacts is a placeholder until the SizeFacts pass is written (replace this file).
func genSizeFacts(w *world, dump bool) string { return "" }

package main

// RetentionFacts (C13): where does caller-owned memory go?
//
// Roots: every function literal converted to interceptor.RTPWriterFunc / RTPReaderFunc /
// RTCPReaderFunc / RTCPWriterFunc (the closures the Bind* methods return, and the writers handed
// to a pacer), and every method with the signature of RTPWriter.Write (e.g. the pacers, which are
// RTPWriters themselves).  Their parameters of type *rtp.Header, []byte, interceptor.Attributes
// and []rtcp.Packet are caller-owned.
//
// A flow-insensitive pass per function computes for every local variable whether it may hold an
// ALIAS into caller-owned memory (the parameter, a sub-slice, `*header`, a slice/pointer/map-typed
// field, the result of a parse such as GetRTPHeader / GetRTCPPackets / GetExtension / Unmarshal,
// a composite literal or closure containing one) or a COPY made by a recognised wrapper
// (copy(dst, …), append([]T(nil), …...), Header.Clone / Packet.Clone, bytes.Clone, slices.Clone,
// maps.Clone, Marshal, a PacketFactory.NewPacket call).  Values of types that cannot carry a
// reference (numbers, bools, strings, time.Time, structs of those) are never tracked: reading
// header.SSRC retains nothing.
//
// A retention SITE is a statement through which a tracked value leaves the call:
//   store   assignment to a struct field / map or slice element / captured variable / pointee,
//           or insertion into a container (list.PushBack, sync.Map.Store, sync.Pool.Put)
//   send    channel send
//   go      `go` statement whose function literal captures, or whose arguments contain, the value
// Calls to functions and methods of the module are followed with the categories of the
// arguments (interface methods: every implementation in the module); calls to the NEXT
// RTPWriter / RTPReader / RTCPWriter / RTCPReader are not sites (the callee is another root or the
// application), nor are calls of callbacks.
//
// Every site is emitted with the wrapper through which the value passed (none = an alias) and
// the kinds of caller memory it stems from; Facts/C13.lean checks that every site is a copy or
// is listed in the hand-written exception table.

import (
	"bytes"
	"fmt"
	"go/ast"
	"go/printer"
	"go/token"
	"go/types"
	"sort"
	"strings"

	"golang.org/x/tools/go/packages"
)

// category of a value
const (
	catNone  = 0
	catCopy  = 1
	catAlias = 2
)

// origins (bit mask)
const (
	orgHeader = 1
	orgBytes  = 2
	orgAttrs  = 4
	orgPkts   = 8
)

type rcat struct {
	c       int    // catNone / catCopy / catAlias
	wrapper string // for catCopy: which wrapper
	org     int
}

func (a rcat) join(b rcat) rcat {
	r := a
	if b.c > r.c {
		r.c, r.wrapper = b.c, b.wrapper
	}
	r.org = a.org | b.org
	if r.c == catNone {
		r.org = 0
	}
	return r
}

type rsite struct {
	ctx, pos, kind, wrapper, text string
	org                           int
}

type rfunc struct {
	pkg  *packages.Package
	decl *ast.FuncDecl
}

type retention struct {
	w     *world
	funcs map[string]rfunc
	sites map[string]rsite
	memo  map[string]*rcat // nil while in progress
}

func carriesRef(t types.Type, seen map[types.Type]bool) bool {
	if t == nil {
		return false
	}
	if seen[t] {
		return false
	}
	seen[t] = true
	switch u := t.(type) {
	case *types.Named:
		if o := u.Obj(); o != nil && o.Pkg() != nil {
			switch o.Pkg().Path() {
			case "time", "sync", "sync/atomic":
				return false
			}
		}
		if u.Obj() != nil && u.Obj().Pkg() == nil && u.Obj().Name() == "error" {
			return false
		}
		return carriesRef(u.Underlying(), seen)
	case *types.Alias:
		return carriesRef(types.Unalias(u), seen)
	case *types.Basic:
		return u.Kind() == types.UnsafePointer
	case *types.Pointer, *types.Slice, *types.Map, *types.Chan, *types.Signature, *types.Interface:
		return true
	case *types.Array:
		return carriesRef(u.Elem(), seen)
	case *types.Struct:
		for i := 0; i < u.NumFields(); i++ {
			if carriesRef(u.Field(i).Type(), seen) {
				return true
			}
		}
		return false
	case *types.Tuple:
		for i := 0; i < u.Len(); i++ {
			if carriesRef(u.At(i).Type(), seen) {
				return true
			}
		}
		return false
	}
	return false
}

func refType(t types.Type) bool { return carriesRef(t, map[types.Type]bool{}) }

func typeString(t types.Type) string {
	return types.TypeString(t, func(p *types.Package) string { return p.Name() })
}

// ownedOrigin classifies a parameter type as caller-owned memory.
func ownedOrigin(t types.Type) int {
	switch typeString(t) {
	case "*rtp.Header":
		return orgHeader
	case "[]byte", "[]uint8":
		return orgBytes
	case "interceptor.Attributes":
		return orgAttrs
	case "[]rtcp.Packet":
		return orgPkts
	}
	return 0
}

// rframe is the analysis of one function body under given parameter categories.
type rframe struct {
	r     *retention
	pkg   *packages.Package
	ctx   string
	body  *ast.BlockStmt
	vars  map[types.Object]rcat
	local map[types.Object]bool // declared inside this function (params included)
	depth int
	grew  bool
}

func (f *rframe) info() *types.Info { return f.pkg.TypesInfo }

func (f *rframe) setVar(o types.Object, c rcat) {
	if o == nil || c.c == catNone {
		return
	}
	if v, ok := o.(*types.Var); ok && !refType(v.Type()) {
		return
	}
	old := f.vars[o]
	n := old.join(c)
	if n != old {
		f.vars[o] = n
		f.grew = true
	}
}

func baseIdent(e ast.Expr) *ast.Ident {
	for {
		switch x := ast.Unparen(e).(type) {
		case *ast.Ident:
			return x
		case *ast.SelectorExpr:
			e = x.X
		case *ast.IndexExpr:
			e = x.X
		case *ast.SliceExpr:
			e = x.X
		case *ast.StarExpr:
			e = x.X
		case *ast.UnaryExpr:
			e = x.X
		case *ast.CallExpr:
			return nil
		default:
			return nil
		}
	}
}

var cloneFuncs = map[string]string{
	"bytes.Clone": "bytesClone", "slices.Clone": "slicesClone", "maps.Clone": "mapsClone",
}

// cat evaluates the category of an expression.
func (f *rframe) cat(e ast.Expr) rcat {
	info := f.info()
	tv, hasType := info.Types[e]
	if hasType && tv.Type != nil && !refType(tv.Type) {
		return rcat{}
	}
	switch x := e.(type) {
	case *ast.ParenExpr:
		return f.cat(x.X)
	case *ast.Ident:
		if o := info.Uses[x]; o != nil {
			return f.vars[o]
		}
		if o := info.Defs[x]; o != nil {
			return f.vars[o]
		}
		return rcat{}
	case *ast.SelectorExpr:
		if sel, ok := info.Selections[x]; ok && sel.Kind() == types.FieldVal {
			return f.cat(x.X)
		}
		return rcat{} // package-qualified identifier or method value
	case *ast.StarExpr:
		return f.cat(x.X)
	case *ast.UnaryExpr:
		if x.Op == token.AND || x.Op == token.ARROW {
			return f.cat(x.X)
		}
		return rcat{}
	case *ast.SliceExpr:
		return f.cat(x.X)
	case *ast.IndexExpr:
		return f.cat(x.X)
	case *ast.TypeAssertExpr:
		return f.cat(x.X)
	case *ast.KeyValueExpr:
		return f.cat(x.Value)
	case *ast.CompositeLit:
		var r rcat
		for _, el := range x.Elts {
			r = r.join(f.cat(el))
		}
		return r
	case *ast.FuncLit:
		var r rcat
		ast.Inspect(x.Body, func(n ast.Node) bool {
			if id, ok := n.(*ast.Ident); ok {
				if o := info.Uses[id]; o != nil {
					if c, ok := f.vars[o]; ok {
						r = r.join(c)
					}
				}
			}
			return true
		})
		return r
	case *ast.CallExpr:
		return f.callCat(x)
	}
	return rcat{}
}

func (f *rframe) argsCat(call *ast.CallExpr) rcat {
	var r rcat
	for _, a := range call.Args {
		r = r.join(f.cat(a))
	}
	if sel, ok := ast.Unparen(call.Fun).(*ast.SelectorExpr); ok {
		if s, ok := f.info().Selections[sel]; ok && s.Kind() == types.MethodVal {
			r = r.join(f.cat(sel.X))
		}
	}
	return r
}

func copied(c rcat, wrapper string) rcat {
	if c.c == catNone {
		return rcat{}
	}
	return rcat{c: catCopy, wrapper: wrapper, org: c.org}
}

func (f *rframe) callCat(call *ast.CallExpr) rcat {
	info := f.info()
	// conversion
	if tv, ok := info.Types[call.Fun]; ok && tv.IsType() {
		if len(call.Args) == 1 {
			return f.cat(call.Args[0])
		}
		return rcat{}
	}
	if id, ok := ast.Unparen(call.Fun).(*ast.Ident); ok {
		if b, ok := info.Uses[id].(*types.Builtin); ok {
			switch b.Name() {
			case "append":
				if len(call.Args) == 0 {
					return rcat{}
				}
				r := f.cat(call.Args[0])
				rest := rcat{}
				for _, a := range call.Args[1:] {
					rest = rest.join(f.cat(a))
				}
				if call.Ellipsis != token.NoPos && len(call.Args) == 2 {
					// append(dst, src...): the elements of src are copied; they alias only if the
					// element type itself carries a reference
					elemRef := true
					if tv, ok := info.Types[call.Args[1]]; ok {
						if sl, ok := tv.Type.Underlying().(*types.Slice); ok {
							elemRef = refType(sl.Elem())
						}
					}
					if !elemRef {
						w := "append"
						if isNilConv(info, call.Args[0]) {
							w = "appendNil"
						}
						rest = copied(rest, w)
					} else if isNilConv(info, call.Args[0]) {
						// a fresh backing array; the elements (pointers/interfaces) are shared with the caller
						rest = copied(rest, "appendNilShallow")
					}
				}
				return r.join(rest)
			default:
				return rcat{}
			}
		}
	}
	fn := callee(info, call)
	args := f.argsCat(call)
	if fn != nil {
		full := ""
		if fn.Pkg() != nil {
			full = fn.Pkg().Name() + "." + fn.Name()
		}
		if w, ok := cloneFuncs[full]; ok {
			return copied(args, w)
		}
		if sig, ok := fn.Type().(*types.Signature); ok && sig.Recv() != nil {
			switch fn.Name() {
			case "Clone":
				return copied(args, "clone")
			case "Marshal", "MarshalTo":
				return copied(args, "marshal")
			case "NewPacket":
				if strings.HasSuffix(typeString(sig.Recv().Type()), "PacketFactory") {
					return copied(args, "factory")
				}
			}
		}
	}
	// module callees: the category of what they return (interface methods: all implementations)
	if fn != nil && fn.Pkg() != nil && strings.HasPrefix(fn.Pkg().Path(), modPath) && f.depth < 8 {
		if targets, recv, as, ok := f.targets(call, fn); ok {
			var r rcat
			known := len(targets) > 0
			for _, t := range targets {
				ret, ok := f.r.analyseCallee(t, recv, as, f.depth+1)
				if !ok {
					known = false
					break
				}
				r = r.join(ret)
			}
			if known {
				return r
			}
		}
	}
	// anything else that returns a reference type may return (part of) its arguments
	return args
}

// targets resolves a call of a module function: callee keys, receiver and argument categories.
func (f *rframe) targets(call *ast.CallExpr, fn *types.Func) (targets []string, recv rcat, args []rcat, ok bool) {
	info := f.info()
	sig, _ := fn.Type().(*types.Signature)
	if sig == nil {
		return nil, rcat{}, nil, false
	}
	if sig.Recv() != nil {
		if it, isIface := sig.Recv().Type().Underlying().(*types.Interface); isIface {
			switch typeString(sig.Recv().Type()) {
			case "interceptor.RTPWriter", "interceptor.RTPReader", "interceptor.RTCPWriter", "interceptor.RTCPReader":
				return nil, rcat{}, nil, false // the next element of the chain: a root of its own
			}
			targets = f.r.w.implementations(it, fn.Name())
		} else {
			targets = []string{objKey(fn)}
		}
	} else {
		targets = []string{objKey(fn)}
	}
	if sel, isSel := ast.Unparen(call.Fun).(*ast.SelectorExpr); isSel {
		if s, isM := info.Selections[sel]; isM && s.Kind() == types.MethodVal {
			recv = f.cat(sel.X)
		}
	}
	args = make([]rcat, len(call.Args))
	for i, a := range call.Args {
		args[i] = f.cat(a)
	}
	return targets, recv, args, true
}

func isNilConv(info *types.Info, e ast.Expr) bool {
	c, ok := ast.Unparen(e).(*ast.CallExpr)
	if !ok || len(c.Args) != 1 {
		return false
	}
	if tv, ok := info.Types[c.Fun]; !ok || !tv.IsType() {
		return false
	}
	id, ok := ast.Unparen(c.Args[0]).(*ast.Ident)
	return ok && id.Name == "nil"
}

func (f *rframe) exprText(n ast.Node) string {
	var buf bytes.Buffer
	_ = printer.Fprint(&buf, f.r.w.fset, n)
	s := strings.Join(strings.Fields(buf.String()), " ")
	if len(s) > 90 {
		s = s[:87] + "..."
	}
	return s
}

func (f *rframe) site(kind string, at ast.Node, c rcat) {
	if c.c == catNone {
		return
	}
	w := "none"
	if c.c == catCopy {
		w = c.wrapper
	}
	pos := f.r.w.pos(at.Pos())
	key := pos + "|" + kind + "|" + f.ctx
	s := rsite{ctx: f.ctx, pos: pos, kind: kind, wrapper: w, text: f.exprText(at), org: c.org}
	if old, ok := f.r.sites[key]; ok {
		// the same statement reached with different argument categories: keep the weakest
		if old.wrapper == "none" {
			s.wrapper = "none"
		}
		s.org |= old.org
	}
	f.r.sites[key] = s
}

// isLocalValue: the assignment target is (a field of) a variable of this very function that is
// not a pointer, map or slice: the store stays in the frame.
func (f *rframe) isLocalValue(lhs ast.Expr) bool {
	e := ast.Unparen(lhs)
	for {
		switch x := e.(type) {
		case *ast.Ident:
			o := f.info().Uses[x]
			if o == nil {
				o = f.info().Defs[x]
			}
			return o != nil && f.local[o]
		case *ast.SelectorExpr:
			if tv, ok := f.info().Types[x.X]; ok {
				if _, isPtr := tv.Type.Underlying().(*types.Pointer); isPtr {
					return false
				}
			}
			e = ast.Unparen(x.X)
		case *ast.IndexExpr:
			if tv, ok := f.info().Types[x.X]; ok {
				if _, isArr := tv.Type.Underlying().(*types.Array); !isArr {
					return false
				}
			}
			e = ast.Unparen(x.X)
		default:
			return false
		}
	}
}

var retainingExternals = map[string]bool{
	"list.PushBack": true, "list.PushFront": true, "list.InsertBefore": true, "list.InsertAfter": true,
	"sync.Store": true, "sync.Put": true, "sync.LoadOrStore": true, "sync.Swap": true,
}

func (f *rframe) assign(lhs ast.Expr, c rcat, at ast.Node) {
	if id, ok := ast.Unparen(lhs).(*ast.Ident); ok {
		if id.Name == "_" {
			return
		}
		o := f.info().Defs[id]
		if o == nil {
			o = f.info().Uses[id]
		}
		if o == nil {
			return
		}
		if f.local[o] {
			f.setVar(o, c)
			return
		}
		f.site("store", at, c) // captured or package-level variable
		return
	}
	if f.isLocalValue(lhs) {
		if b := baseIdent(lhs); b != nil {
			if o := f.info().Uses[b]; o != nil {
				f.setVar(o, c)
			}
		}
		return
	}
	f.site("store", at, c)
	// the container now holds the value: later reads of it see it
	if b := baseIdent(lhs); b != nil {
		if o := f.info().Uses[b]; o != nil && f.local[o] {
			f.setVar(o, c)
		}
	}
}

func (f *rframe) walk() {
	info := f.info()
	ast.Inspect(f.body, func(n ast.Node) bool {
		switch s := n.(type) {
		case *ast.FuncLit:
			// a nested literal shares the frame (it may run later: `go`, defer, stored callbacks);
			// its parameters are its own
			return true
		case *ast.AssignStmt:
			if len(s.Lhs) == len(s.Rhs) {
				for i := range s.Lhs {
					f.assign(s.Lhs[i], f.cat(s.Rhs[i]), s)
				}
			} else if len(s.Rhs) == 1 {
				c := f.cat(s.Rhs[0])
				for _, l := range s.Lhs {
					f.assign(l, c, s)
				}
			}
		case *ast.ValueSpec:
			for i, name := range s.Names {
				if i < len(s.Values) {
					f.setVar(info.Defs[name], f.cat(s.Values[i]))
				} else if len(s.Values) == 1 {
					f.setVar(info.Defs[name], f.cat(s.Values[0]))
				}
			}
		case *ast.RangeStmt:
			c := f.cat(s.X)
			if s.Value != nil {
				f.assign(s.Value, c, s)
			}
			if s.Key != nil {
				if tv, ok := info.Types[s.X]; ok {
					if _, isMap := tv.Type.Underlying().(*types.Map); isMap {
						f.assign(s.Key, c, s)
					}
				}
			}
		case *ast.SendStmt:
			f.site("send", s, f.cat(s.Value))
		case *ast.GoStmt:
			c := f.cat(s.Call.Fun)
			for _, a := range s.Call.Args {
				c = c.join(f.cat(a))
			}
			f.site("go", s, c)
		case *ast.CallExpr:
			f.call(s)
		}
		return true
	})
}

func (f *rframe) call(call *ast.CallExpr) {
	info := f.info()
	// builtin copy(dst, src)
	if id, ok := ast.Unparen(call.Fun).(*ast.Ident); ok {
		if b, ok := info.Uses[id].(*types.Builtin); ok && b.Name() == "copy" && len(call.Args) == 2 {
			c := copied(f.cat(call.Args[1]), "copy")
			if bid := baseIdent(call.Args[0]); bid != nil {
				if o := info.Uses[bid]; o != nil && f.local[o] {
					f.setVar(o, c)
					return
				}
			}
			f.site("store", call, c)
			return
		}
	}
	fn := callee(info, call)
	if fn == nil {
		return
	}
	sig, _ := fn.Type().(*types.Signature)
	// parse methods that make the receiver alias their argument
	if sig != nil && sig.Recv() != nil && strings.HasPrefix(fn.Name(), "Unmarshal") {
		if sel, ok := ast.Unparen(call.Fun).(*ast.SelectorExpr); ok {
			var c rcat
			for _, a := range call.Args {
				c = c.join(f.cat(a))
			}
			if bid := baseIdent(sel.X); bid != nil {
				if o := info.Uses[bid]; o != nil {
					f.setVar(o, c)
				}
			}
		}
	}
	if fn.Pkg() == nil {
		return
	}
	// containers outside the module
	if sig != nil && sig.Recv() != nil && retainingExternals[fn.Pkg().Name()+"."+fn.Name()] {
		var c rcat
		for _, a := range call.Args {
			c = c.join(f.cat(a))
		}
		f.site("store", call, c)
		return
	}
	if !strings.HasPrefix(fn.Pkg().Path(), modPath) || sig == nil {
		return
	}
	// module callee(s): followed with the categories of the arguments
	targets, recv, args, ok := f.targets(call, fn)
	if !ok {
		return
	}
	any := recv.c != catNone
	for _, a := range args {
		any = any || a.c != catNone
	}
	if !any || f.depth >= 8 {
		return
	}
	for _, t := range targets {
		f.r.analyseCallee(t, recv, args, f.depth+1)
	}
}

func catKey(c rcat) string { return fmt.Sprintf("%d%s/%d", c.c, c.wrapper, c.org) }

// analyseCallee analyses a module function under the given receiver / argument categories (its
// retention sites are recorded) and returns the category of what it returns; ok=false when the
// function has no body here or the analysis is still in progress (recursion).
func (r *retention) analyseCallee(key string, recv rcat, args []rcat, depth int) (rcat, bool) {
	fd, ok := r.funcs[key]
	if !ok || fd.decl.Body == nil {
		return rcat{}, false
	}
	mk := key + "|" + catKey(recv)
	for _, a := range args {
		mk += "|" + catKey(a)
	}
	if res, seen := r.memo[mk]; seen {
		if res == nil {
			return rcat{}, false
		}
		return *res, true
	}
	r.memo[mk] = nil
	f := &rframe{r: r, pkg: fd.pkg, ctx: key, body: fd.decl.Body, vars: map[types.Object]rcat{}, local: map[types.Object]bool{}, depth: depth}
	info := fd.pkg.TypesInfo
	if fd.decl.Recv != nil {
		for _, fl := range fd.decl.Recv.List {
			for _, n := range fl.Names {
				if o := info.Defs[n]; o != nil {
					f.local[o] = true
					f.vars[o] = recv
				}
			}
		}
	}
	i := 0
	for _, fl := range fd.decl.Type.Params.List {
		names := fl.Names
		if len(names) == 0 {
			i++
			continue
		}
		for _, n := range names {
			if o := info.Defs[n]; o != nil {
				f.local[o] = true
				if i < len(args) {
					f.vars[o] = args[i]
				} else if len(args) > 0 {
					f.vars[o] = args[len(args)-1] // variadic tail
				}
			}
			i++
		}
	}
	f.run()
	var ret rcat
	var named []types.Object
	if fd.decl.Type.Results != nil {
		for _, fl := range fd.decl.Type.Results.List {
			for _, n := range fl.Names {
				if o := info.Defs[n]; o != nil {
					named = append(named, o)
				}
			}
		}
	}
	ast.Inspect(fd.decl.Body, func(n ast.Node) bool {
		switch x := n.(type) {
		case *ast.FuncLit:
			return false
		case *ast.ReturnStmt:
			for _, e := range x.Results {
				ret = ret.join(f.cat(e))
			}
			if len(x.Results) == 0 {
				for _, o := range named {
					ret = ret.join(f.vars[o])
				}
			}
		}
		return true
	})
	r.memo[mk] = &ret
	return ret, true
}

func (f *rframe) run() {
	// locals: everything declared inside the body
	ast.Inspect(f.body, func(n ast.Node) bool {
		if id, ok := n.(*ast.Ident); ok {
			if o := f.info().Defs[id]; o != nil {
				f.local[o] = true
			}
		}
		if fl, ok := n.(*ast.FuncLit); ok {
			for _, p := range fl.Type.Params.List {
				for _, nm := range p.Names {
					if o := f.info().Defs[nm]; o != nil {
						f.local[o] = true
					}
				}
			}
		}
		return true
	})
	for round := 0; round < 12; round++ {
		f.grew = false
		f.walk()
		if !f.grew {
			break
		}
	}
}

func (r *retention) root(p *packages.Package, ctx string, ft *ast.FuncType, body *ast.BlockStmt) {
	f := &rframe{r: r, pkg: p, ctx: ctx, body: body, vars: map[types.Object]rcat{}, local: map[types.Object]bool{}}
	for _, fl := range ft.Params.List {
		for _, n := range fl.Names {
			o := p.TypesInfo.Defs[n]
			if o == nil {
				continue
			}
			f.local[o] = true
			if org := ownedOrigin(o.Type()); org != 0 {
				f.vars[o] = rcat{c: catAlias, org: org}
			}
		}
	}
	f.run()
}

func isRootConversion(info *types.Info, call *ast.CallExpr) bool {
	tv, ok := info.Types[call.Fun]
	if !ok || !tv.IsType() {
		return false
	}
	switch typeString(tv.Type) {
	case "interceptor.RTPWriterFunc", "interceptor.RTPReaderFunc", "interceptor.RTCPWriterFunc", "interceptor.RTCPReaderFunc":
		return true
	}
	return false
}

func isWriterMethod(info *types.Info, fd *ast.FuncDecl) bool {
	if fd.Recv == nil || (fd.Name.Name != "Write" && fd.Name.Name != "Read") {
		return false
	}
	o, ok := info.Defs[fd.Name].(*types.Func)
	if !ok {
		return false
	}
	sig := o.Type().(*types.Signature)
	var ps []string
	for i := 0; i < sig.Params().Len(); i++ {
		ps = append(ps, typeString(sig.Params().At(i).Type()))
	}
	s := strings.Join(ps, ",")
	return s == "*rtp.Header,[]byte,interceptor.Attributes" || s == "[]rtcp.Packet,interceptor.Attributes" ||
		s == "[]byte,interceptor.Attributes"
}

func genRetentionFacts(w *world, dump bool) string {
	r := &retention{w: w, funcs: map[string]rfunc{}, sites: map[string]rsite{}, memo: map[string]*rcat{}}
	for _, p := range w.pkgs {
		for _, file := range p.Syntax {
			for _, d := range file.Decls {
				if fd, ok := d.(*ast.FuncDecl); ok {
					r.funcs[funcKey(p, fd)] = rfunc{pkg: p, decl: fd}
				}
			}
		}
	}
	var roots []string
	for _, p := range w.pkgs {
		if p.PkgPath == modPath { // the adapter types themselves
			continue
		}
		for _, file := range p.Syntax {
			for _, d := range file.Decls {
				fd, ok := d.(*ast.FuncDecl)
				if !ok || fd.Body == nil {
					continue
				}
				key := funcKey(p, fd)
				if isWriterMethod(p.TypesInfo, fd) {
					roots = append(roots, key)
					r.root(p, key, fd.Type, fd.Body)
				}
				ast.Inspect(fd.Body, func(n ast.Node) bool {
					call, ok := n.(*ast.CallExpr)
					if !ok || len(call.Args) != 1 || !isRootConversion(p.TypesInfo, call) {
						return true
					}
					if lit, ok := ast.Unparen(call.Args[0]).(*ast.FuncLit); ok {
						ctx := fmt.Sprintf("%s$lit%d", key, w.fset.Position(lit.Pos()).Line)
						roots = append(roots, ctx)
						r.root(p, ctx, lit.Type, lit.Body)
					}
					return true
				})
			}
		}
	}
	sort.Strings(roots)
	var keys []string
	for k := range r.sites {
		keys = append(keys, k)
	}
	sort.Slice(keys, func(i, j int) bool {
		a, b := r.sites[keys[i]], r.sites[keys[j]]
		if a.ctx != b.ctx {
			return a.ctx < b.ctx
		}
		if a.pos != b.pos {
			return a.pos < b.pos
		}
		return a.kind < b.kind
	})
	var sb strings.Builder
	sb.WriteString("-- GENERATED by /verif/extract (fact RetentionFacts) from /repo on every run. Do not edit.\n")
	sb.WriteString("import Interceptor.Facts.RetentionTypes\nnamespace Interceptor.Gen.RetentionFacts\nopen Interceptor.Facts\n\n")
	sb.WriteString("-- roots: the RTP/RTCP reader and writer functions whose parameters are caller-owned\n")
	sb.WriteString("def roots : List Name := [\n")
	for i, k := range roots {
		fmt.Fprintf(&sb, "  %s%s -- %s\n", leanBytes(k), comma(i, len(roots)), k)
	}
	sb.WriteString("]\n\n")
	for i, k := range keys {
		s := r.sites[k]
		fmt.Fprintf(&sb, "-- %s: %s\ndef s%d : RSite := { ctx := %s, label := %s, kind := .%s, wrapper := .%s, origins := %d }\n",
			s.pos, s.text, i, leanBytes(s.ctx), leanStr(s.ctx+" @ "+s.pos), map[string]string{"store": "store", "send": "send", "go": "goStmt"}[s.kind], s.wrapper, s.org)
		if dump {
			fmt.Printf("%-60s %-45s %-6s %-16s org=%d  %s\n", s.ctx, s.pos, s.kind, s.wrapper, s.org, s.text)
		}
	}
	sb.WriteString("\ndef sites : List RSite := [")
	for i := range keys {
		if i%12 == 0 {
			sb.WriteString("\n  ")
		}
		fmt.Fprintf(&sb, "s%d%s", i, map[bool]string{true: ", ", false: ""}[i+1 < len(keys)])
	}
	sb.WriteString("]\n\nend Interceptor.Gen.RetentionFacts\n")
	return sb.String()
}

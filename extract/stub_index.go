package main

// genIndexFacts is a placeholder until the IndexFacts pass is written (replace this file).
func genIndexFacts(w *world, dump bool) string { return "" }

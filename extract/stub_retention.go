package main

// genRetentionFacts is a placeholder until the RetentionFacts pass is written (replace this file).
func genRetentionFacts(w *world, dump bool) string { return "" }

package main

// SizeFacts (C12): for every struct field of container type (map, slice, container/list,
// sync.Map, channel) in the packages of C12's anchors — and for every container-typed local of a
// goroutine loop (`for { … }` / `for … range <chan>`) that lives across iterations — the sites
// where it grows (m[k]=v, append, Store, PushBack/PushFront, channel send) and where it shrinks
// or is reset (delete, Delete, Remove, re-slice, assignment of a fresh value, clear, receive),
// with the function context.  The Lean side (Facts/C12.lean) checks that every container that
// grows after construction also has a shrink/reset site, or is listed in a justified exception.

import (
	"fmt"
	"go/ast"
	"go/token"
	"go/types"
	"sort"
	"strings"

	"golang.org/x/tools/go/packages"
)

var sizePkgs = map[string]bool{
	"rtpfb": true, "cc": true, "rfc8888": true, "twcc": true, "nack": true, "rtpbuffer": true, "report": true,
	"stats": true, "jitterbuffer": true, "flexfec": true, "gcc": true, "pacing": true,
}

type sizeSite struct {
	field, kind, ctx, op, how, pos string
	ctor, hot                      bool
}

type sizeWalk struct {
	w     *world
	p     *packages.Package
	fd    *ast.FuncDecl
	key   string
	ctor  bool
	sites *[]sizeSite
	// goroutine loop: the function has a `for {}` / range-over-channel loop
	gloop bool
}

func containerKind(t types.Type) string {
	if t == nil {
		return ""
	}
	if p, ok := t.(*types.Pointer); ok {
		t = p.Elem()
	}
	if nt, ok := t.(*types.Named); ok && nt.Obj().Pkg() != nil {
		switch nt.Obj().Pkg().Path() + "." + nt.Obj().Name() {
		case "container/list.List":
			return "list"
		case "sync.Map":
			return "syncMap"
		}
	}
	switch u := t.Underlying().(type) {
	case *types.Map:
		return "map"
	case *types.Slice:
		return "slice"
	case *types.Chan:
		if u.Dir() == types.SendRecv || true {
			return "chan"
		}
	}
	return ""
}

// target resolves an expression to a tracked container: a struct field of the module, or a
// local of a goroutine loop. Returns (label, kind).
func (sw *sizeWalk) target(x ast.Expr, loops []ast.Node) (string, string) {
	x = ast.Unparen(x)
	switch e := x.(type) {
	case *ast.SelectorExpr:
		sel, ok := sw.p.TypesInfo.Selections[e]
		if !ok || sel.Kind() != types.FieldVal {
			return "", ""
		}
		v, ok := sel.Obj().(*types.Var)
		if !ok {
			return "", ""
		}
		name, ok := sw.w.fieldName[v]
		if !ok || !sizePkgs[strings.SplitN(name, ".", 2)[0]] {
			return "", ""
		}
		return name, containerKind(v.Type())
	case *ast.Ident:
		if !sw.gloop {
			return "", ""
		}
		v, ok := sw.p.TypesInfo.ObjectOf(e).(*types.Var)
		if !ok || v.IsField() || v.Pos() < sw.fd.Pos() || v.Pos() > sw.fd.End() {
			return "", ""
		}
		k := containerKind(v.Type())
		if k == "" || k == "chan" || !sizePkgs[shortPkg(sw.p.PkgPath)] {
			return "", ""
		}
		// must live across iterations: declared outside the outermost enclosing loop
		if len(loops) == 0 || (v.Pos() >= loops[0].Pos() && v.Pos() <= loops[0].End()) {
			return "", ""
		}
		return sw.key + "#" + e.Name, k
	}
	return "", ""
}

func (sw *sizeWalk) add(x ast.Expr, loops []ast.Node, lits int, op, how string, at token.Pos) {
	label, kind := sw.target(x, loops)
	if label == "" || kind == "" {
		return
	}
	*sw.sites = append(*sw.sites, sizeSite{field: label, kind: kind, ctx: sw.key, op: op, how: how,
		pos: sw.w.pos(at), ctor: sw.ctor && lits == 0, hot: lits > 0 || len(loops) > 0})
}

func sameExpr(a, b ast.Expr) bool {
	return types.ExprString(ast.Unparen(a)) == types.ExprString(ast.Unparen(b))
}

func (sw *sizeWalk) assign(l, r ast.Expr, loops []ast.Node, lits int, at token.Pos) {
	// m[k] = v
	if ix, ok := ast.Unparen(l).(*ast.IndexExpr); ok {
		if _, kind := sw.target(ix.X, loops); kind == "map" {
			sw.add(ix.X, loops, lits, "grow", "mapSet", at)
		}
		return
	}
	if _, kind := sw.target(l, loops); kind == "" {
		return
	}
	if r != nil {
		if call, ok := ast.Unparen(r).(*ast.CallExpr); ok {
			if id, ok := call.Fun.(*ast.Ident); ok && id.Name == "append" && len(call.Args) > 0 && sameExpr(call.Args[0], l) {
				sw.add(l, loops, lits, "grow", "append", at)
				return
			}
		}
		if sl, ok := ast.Unparen(r).(*ast.SliceExpr); ok && sameExpr(sl.X, l) {
			sw.add(l, loops, lits, "shrink", "reslice", at)
			return
		}
	}
	sw.add(l, loops, lits, "reset", "assign", at)
}

func (sw *sizeWalk) walk(n ast.Node, loops []ast.Node, lits int) {
	if n == nil {
		return
	}
	switch s := n.(type) {
	case *ast.FuncLit:
		sw.walk(s.Body, loops, lits+1)
		return
	case *ast.ForStmt:
		sw.walk(s.Init, loops, lits)
		sw.walk(s.Cond, loops, lits)
		sw.walk(s.Post, append(loops, s), lits)
		sw.walk(s.Body, append(loops, s), lits)
		return
	case *ast.RangeStmt:
		if t := sw.p.TypesInfo.TypeOf(s.X); t != nil {
			if _, ok := t.Underlying().(*types.Chan); ok {
				sw.add(s.X, loops, lits, "shrink", "recv", s.Pos())
			}
		}
		sw.walk(s.X, loops, lits)
		sw.walk(s.Body, append(loops, s), lits)
		return
	case *ast.AssignStmt:
		for i, l := range s.Lhs {
			var r ast.Expr
			if len(s.Rhs) == len(s.Lhs) {
				r = s.Rhs[i]
			}
			if s.Tok == token.ASSIGN || s.Tok == token.DEFINE {
				sw.assign(l, r, loops, lits, s.Pos())
			}
		}
		for _, r := range s.Rhs {
			sw.walk(r, loops, lits)
		}
		return
	case *ast.SendStmt:
		sw.add(s.Chan, loops, lits, "grow", "send", s.Pos())
		sw.walk(s.Value, loops, lits)
		return
	case *ast.UnaryExpr:
		if s.Op == token.ARROW {
			sw.add(s.X, loops, lits, "shrink", "recv", s.Pos())
		}
	case *ast.CallExpr:
		if id, ok := s.Fun.(*ast.Ident); ok && len(s.Args) > 0 {
			switch id.Name {
			case "delete":
				sw.add(s.Args[0], loops, lits, "shrink", "delete", s.Pos())
			case "clear":
				sw.add(s.Args[0], loops, lits, "reset", "clear", s.Pos())
			}
		}
		if se, ok := s.Fun.(*ast.SelectorExpr); ok {
			if _, kind := sw.target(se.X, loops); kind == "list" || kind == "syncMap" {
				switch se.Sel.Name {
				case "PushBack", "PushFront", "InsertBefore", "InsertAfter", "PushBackList", "PushFrontList":
					sw.add(se.X, loops, lits, "grow", "push", s.Pos())
				case "Store", "LoadOrStore", "Swap":
					sw.add(se.X, loops, lits, "grow", "store", s.Pos())
				case "Remove", "Delete", "LoadAndDelete", "CompareAndDelete":
					sw.add(se.X, loops, lits, "shrink", "remove", s.Pos())
				case "Init", "Clear":
					sw.add(se.X, loops, lits, "reset", "clear", s.Pos())
				}
			}
		}
	}
	// generic descent
	ast.Inspect(n, func(c ast.Node) bool {
		if c == nil || c == n {
			return true
		}
		sw.walk(c, loops, lits)
		return false
	})
}

func hasGoroutineLoop(p *packages.Package, body *ast.BlockStmt) bool {
	found := false
	ast.Inspect(body, func(n ast.Node) bool {
		switch s := n.(type) {
		case *ast.FuncLit:
			return false
		case *ast.ForStmt:
			if s.Cond == nil {
				found = true
			}
		case *ast.RangeStmt:
			if t := p.TypesInfo.TypeOf(s.X); t != nil {
				if _, ok := t.Underlying().(*types.Chan); ok {
					found = true
				}
			}
		}
		return !found
	})
	return found
}

func genSizeFacts(w *world, dump bool) string {
	var sites []sizeSite
	for _, p := range w.pkgs {
		for _, f := range p.Syntax {
			for _, d := range f.Decls {
				fd, ok := d.(*ast.FuncDecl)
				if !ok || fd.Body == nil {
					continue
				}
				key := funcKey(p, fd)
				sw := &sizeWalk{w: w, p: p, fd: fd, key: key, ctor: isCtorName(key) || returnsOption(fd), sites: &sites,
					gloop: hasGoroutineLoop(p, fd.Body)}
				sw.walk(fd.Body, nil, 0)
			}
		}
	}
	// every container field of the anchor packages appears, also those without any site
	kindOf := map[string]string{}
	for v, name := range w.fieldName {
		if !sizePkgs[strings.SplitN(name, ".", 2)[0]] {
			continue
		}
		if k := containerKind(v.Type()); k != "" {
			kindOf[name] = k
		}
	}
	byField := map[string]map[string]string{}
	for _, s := range sites {
		kindOf[s.field] = s.kind
	}
	ctxIDs := map[string]int{}
	var ctxNames []string
	{
		seen := map[string]bool{}
		for _, s := range sites {
			if !seen[s.ctx] {
				seen[s.ctx] = true
				ctxNames = append(ctxNames, s.ctx)
			}
		}
		sort.Strings(ctxNames)
		for i, c := range ctxNames {
			ctxIDs[c] = i
		}
	}
	for _, s := range sites {
		canon := fmt.Sprintf("{ ctx := %d, op := .%s, how := .%s, ctor := %v, hot := %v }", ctxIDs[s.ctx], s.op, s.how, s.ctor, s.hot)
		if byField[s.field] == nil {
			byField[s.field] = map[string]string{}
		}
		if _, ok := byField[s.field][canon]; !ok {
			byField[s.field][canon] = fmt.Sprintf("%s %s/%s ctor=%v hot=%v @%s", s.ctx, s.op, s.how, s.ctor, s.hot, s.pos)
		}
	}
	var fields []string
	for f := range kindOf {
		fields = append(fields, f)
	}
	sort.Strings(fields)
	var sb strings.Builder
	sb.WriteString("-- GENERATED by /verif/extract (fact SizeFacts) from /repo on every run. Do not edit.\n")
	sb.WriteString("import Interceptor.Facts.SizeTypes\nnamespace Interceptor.Gen.SizeFacts\nopen Interceptor.Facts\n\n")
	sb.WriteString("-- function contexts, as (length, base-256 value) pairs\ndef ctxNames : List Name := [\n")
	for i, l := range ctxNames {
		fmt.Fprintf(&sb, "  %s%s -- %d %s\n", leanBytes(l), comma(i, len(ctxNames)), i, l)
	}
	sb.WriteString("]\n\n")
	for i, f := range fields {
		var cs []string
		for c := range byField[f] {
			cs = append(cs, c)
		}
		sort.Strings(cs)
		fmt.Fprintf(&sb, "def c%d : Container := { label := %s, name := %s, kind := .%s, sites := [", i, leanStr(f), leanBytes(f), kindOf[f])
		for j, c := range cs {
			fmt.Fprintf(&sb, "\n  %s%s", c, comma(j, len(cs)))
		}
		sb.WriteString("] }\n")
		if dump {
			fmt.Println(f, kindOf[f])
			for _, c := range cs {
				fmt.Println("    ", byField[f][c])
			}
		}
	}
	sb.WriteString("\ndef containers : List Container := [")
	for i := range fields {
		if i > 0 {
			sb.WriteString(", ")
		}
		if i%12 == 0 {
			sb.WriteString("\n  ")
		}
		fmt.Fprintf(&sb, "c%d", i)
	}
	sb.WriteString("]\n\nend Interceptor.Gen.SizeFacts\n")
	return sb.String()
}

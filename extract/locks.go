package main

import (
	"fmt"
	"go/ast"
	"go/token"
	"go/types"
	"math/big"
	"os"
	"sort"
	"strings"

	"golang.org/x/tools/go/packages"
)

// lockset: lock name -> mode ('W' exclusive, 'R' shared).
type lockset map[string]byte

func (l lockset) clone() lockset {
	r := lockset{}
	for k, v := range l {
		r[k] = v
	}
	return r
}

func meet(a, b lockset) lockset {
	r := lockset{}
	for k, va := range a {
		if vb, ok := b[k]; ok {
			if va == 'W' && vb == 'W' {
				r[k] = 'W'
			} else {
				r[k] = 'R'
			}
		}
	}
	return r
}

func join(a, b lockset) lockset {
	r := a.clone()
	for k, v := range b {
		if r[k] != 'W' {
			r[k] = v
		}
	}
	return r
}

func (l lockset) String() string {
	var ks []string
	for k, v := range l {
		ks = append(ks, fmt.Sprintf("%s:%c", k, v))
	}
	sort.Strings(ks)
	return "{" + strings.Join(ks, ",") + "}"
}

type site struct {
	field string // pkg.Struct.field
	ctx   string // function context
	pos   string
	rw    byte // 'R' read, 'W' write, 'A' atomic, 'S' use of a self-synchronised value
	ctor  bool // in a constructor / on a freshly allocated, unpublished object
	local lockset
}

type callSite struct {
	caller, callee string
	held           lockset
	pos            string
}

type acquire struct {
	ctx, name, pos string
	held           lockset
}

type blockEv struct {
	ctx, what, pos string
	held           lockset
}

type lockAnalysis struct {
	w        *world
	sites    []*site
	calls    []callSite
	roots    map[string]bool // contexts whose entry lock set is empty by construction
	ctxs     map[string]bool
	acquires []acquire
	blocks   []blockEv
	cbCalls  []blockEv // calls of a func-typed struct field (a callback supplied from outside)
}

// context of one walk
type lctx struct {
	la    *lockAnalysis
	p     *packages.Package
	key   string
	ctor  bool
	fresh map[types.Object]bool
	done  map[*ast.FuncLit]bool
}

func isCtorName(name string) bool {
	i := strings.LastIndex(name, ".")
	n := name[i+1:]
	return strings.HasPrefix(n, "New") || strings.HasPrefix(n, "new") || n == "init"
}

func returnsOption(fd *ast.FuncDecl) bool {
	if fd.Type.Results == nil {
		return false
	}
	for _, r := range fd.Type.Results.List {
		if id, ok := r.Type.(*ast.Ident); ok && strings.HasSuffix(id.Name, "Option") {
			return true
		}
	}
	return false
}

func analyseLocks(w *world) *lockAnalysis {
	la := &lockAnalysis{w: w, roots: map[string]bool{}, ctxs: map[string]bool{}}
	for _, p := range w.pkgs {
		for _, f := range p.Syntax {
			for _, d := range f.Decls {
				fd, ok := d.(*ast.FuncDecl)
				if !ok || fd.Body == nil {
					continue
				}
				key := funcKey(p, fd)
				c := &lctx{la: la, p: p, key: key, ctor: isCtorName(key) || returnsOption(fd),
					fresh: map[types.Object]bool{}, done: map[*ast.FuncLit]bool{}}
				la.ctxs[key] = true
				c.block(fd.Body.List, lockset{})
			}
		}
	}
	return la
}

// entry lock sets: greatest fixed point of entry(f) = ⋂ over call sites (entry(caller) ∪ held).
func (la *lockAnalysis) entries() map[string]lockset {
	callers := map[string][]callSite{}
	for _, c := range la.calls {
		if la.ctxs[c.callee] {
			callers[c.callee] = append(callers[c.callee], c)
		}
	}
	if os.Getenv("EXTRACT_DEBUG") != "" {
		for _, c := range callers[os.Getenv("EXTRACT_DEBUG")] {
			fmt.Fprintln(os.Stderr, "CALLER", c.caller, c.held, c.pos, "root:", la.roots[os.Getenv("EXTRACT_DEBUG")])
		}
	}
	entry := map[string]lockset{}
	top := map[string]bool{}
	for k := range la.ctxs {
		if la.roots[k] || len(callers[k]) == 0 {
			entry[k] = lockset{}
		} else {
			top[k] = true
		}
	}
	for changed := true; changed || len(top) > 0; {
		if !changed {
			// stuck: the remaining contexts are only reachable from each other (e.g. Chain.Close calling
			// Interceptor.Close through the interface).  Exported API methods are entered without locks.
			var ks []string
			for k := range top {
				ks = append(ks, k)
			}
			sort.Slice(ks, func(i, j int) bool {
				ei, ej := exportedName(ks[i]), exportedName(ks[j])
				if ei != ej {
					return ei
				}
				return ks[i] < ks[j]
			})
			entry[ks[0]] = lockset{}
			delete(top, ks[0])
		}
		changed = false
		for k := range la.ctxs {
			if la.roots[k] || len(callers[k]) == 0 {
				continue
			}
			var acc lockset
			first := true
			for _, c := range callers[k] {
				if top[c.caller] {
					continue // ⊤ ∪ held = ⊤: neutral for the meet
				}
				v := join(entry[c.caller], c.held)
				if first {
					acc, first = v, false
				} else {
					acc = meet(acc, v)
				}
			}
			if first {
				continue
			}
			if top[k] || acc.String() != entry[k].String() {
				entry[k] = acc
				delete(top, k)
				changed = true
			}
		}
	}
	return entry
}

func (c *lctx) lockName(x ast.Expr) string {
	x = ast.Unparen(x)
	switch e := x.(type) {
	case *ast.SelectorExpr:
		if sel, ok := c.p.TypesInfo.Selections[e]; ok && sel.Kind() == types.FieldVal {
			if v, ok := sel.Obj().(*types.Var); ok {
				if n, ok := c.la.w.fieldName[v]; ok {
					return n
				}
			}
		}
		return "expr:" + types.ExprString(e)
	case *ast.Ident:
		// a value with an embedded mutex, or a local mutex
		if t := c.p.TypesInfo.TypeOf(e); t != nil {
			if pt, ok := t.(*types.Pointer); ok {
				t = pt.Elem()
			}
			if nt, ok := t.(*types.Named); ok && nt.Obj().Pkg() != nil && strings.HasPrefix(nt.Obj().Pkg().Path(), modPath) {
				return shortPkg(nt.Obj().Pkg().Path()) + "." + nt.Obj().Name() + ".<embedded>"
			}
		}
		return "local:" + e.Name
	}
	return "expr:" + types.ExprString(x)
}

// lockOp recognises x.Lock()/RLock()/Unlock()/RUnlock() on sync mutexes.
func (c *lctx) lockOp(call *ast.CallExpr) (name string, op string, ok bool) {
	se, isSel := call.Fun.(*ast.SelectorExpr)
	if !isSel {
		return "", "", false
	}
	fn, _ := c.p.TypesInfo.Uses[se.Sel].(*types.Func)
	if fn == nil || fn.Pkg() == nil || fn.Pkg().Path() != "sync" {
		return "", "", false
	}
	switch fn.Name() {
	case "Lock", "RLock", "Unlock", "RUnlock":
	default:
		return "", "", false
	}
	full := fn.FullName()
	if !strings.Contains(full, "Mutex") {
		return "", "", false
	}
	return c.lockName(se.X), fn.Name(), true
}

func (c *lctx) block(stmts []ast.Stmt, held lockset) lockset {
	for _, s := range stmts {
		held = c.stmt(s, held)
	}
	return held
}

func (c *lctx) stmt(s ast.Stmt, held lockset) lockset {
	switch st := s.(type) {
	case nil:
		return held
	case *ast.ExprStmt:
		if call, ok := st.X.(*ast.CallExpr); ok {
			if name, op, ok := c.lockOp(call); ok {
				h := held.clone()
				switch op {
				case "Lock", "RLock":
					c.la.acquires = append(c.la.acquires, acquire{c.key, name, c.la.w.pos(call.Pos()), held.clone()})
					if op == "Lock" {
						h[name] = 'W'
					} else if h[name] != 'W' {
						h[name] = 'R'
					}
				default:
					delete(h, name)
				}
				return h
			}
		}
		c.expr(st.X, held)
		return held
	case *ast.DeferStmt:
		if _, _, ok := c.lockOp(st.Call); ok {
			return held // deferred unlock: the lock stays held to the end of the function
		}
		if lit, ok := st.Call.Fun.(*ast.FuncLit); ok {
			c.done[lit] = true
			c.block(lit.Body.List, held.clone())
		}
		c.expr(st.Call, held)
		return held
	case *ast.GoStmt:
		for _, a := range st.Call.Args {
			c.expr(a, held)
		}
		if lit, ok := st.Call.Fun.(*ast.FuncLit); ok {
			c.escaping(lit, "go")
		} else {
			if fn := callee(c.p.TypesInfo, st.Call); fn != nil {
				c.la.roots[objKey(fn)] = true
			}
			if se, ok := st.Call.Fun.(*ast.SelectorExpr); ok {
				c.expr(se.X, held)
			}
		}
		return held
	case *ast.AssignStmt:
		for _, r := range st.Rhs {
			c.expr(r, held)
		}
		for i, l := range st.Lhs {
			c.lhs(l, held)
			if st.Tok == token.DEFINE || st.Tok == token.ASSIGN {
				if id, ok := l.(*ast.Ident); ok && i < len(st.Rhs) && len(st.Lhs) == len(st.Rhs) && c.isFresh(st.Rhs[i]) {
					if o := c.p.TypesInfo.ObjectOf(id); o != nil {
						c.fresh[o] = true
					}
				}
				if id, ok := l.(*ast.Ident); ok && len(st.Rhs) == 1 && len(st.Lhs) == 2 && i == 0 && c.isFresh(st.Rhs[0]) {
					if o := c.p.TypesInfo.ObjectOf(id); o != nil {
						c.fresh[o] = true
					}
				}
			}
		}
		return held
	case *ast.IncDecStmt:
		c.lhs(st.X, held)
		return held
	case *ast.SendStmt:
		c.expr(st.Chan, held)
		c.expr(st.Value, held)
		c.blocking(held, "chan send", st.Pos())
		return held
	case *ast.ReturnStmt:
		for _, r := range st.Results {
			c.expr(r, held)
		}
		return held
	case *ast.BlockStmt:
		return c.block(st.List, held)
	case *ast.IfStmt:
		held = c.stmt(st.Init, held)
		c.expr(st.Cond, held)
		h1 := c.block(st.Body.List, held.clone())
		var h2 lockset
		elseTerm := false
		switch e := st.Else.(type) {
		case nil:
			h2 = held
		case *ast.BlockStmt:
			h2 = c.block(e.List, held.clone())
			elseTerm = terminates(e.List)
		default:
			h2 = c.stmt(e, held.clone())
		}
		switch {
		case terminates(st.Body.List) && elseTerm:
			return held
		case terminates(st.Body.List):
			return h2
		case elseTerm:
			return h1
		}
		return meet(h1, h2)
	case *ast.ForStmt:
		held = c.stmt(st.Init, held)
		c.expr(st.Cond, held)
		c.block(st.Body.List, held.clone())
		c.stmt(st.Post, held.clone())
		return held
	case *ast.RangeStmt:
		c.expr(st.X, held)
		if st.Tok == token.ASSIGN {
			c.lhs(st.Key, held)
			c.lhs(st.Value, held)
		}
		c.block(st.Body.List, held.clone())
		return held
	case *ast.SwitchStmt:
		held = c.stmt(st.Init, held)
		c.expr(st.Tag, held)
		return c.clauses(st.Body.List, held)
	case *ast.TypeSwitchStmt:
		held = c.stmt(st.Init, held)
		c.stmt(st.Assign, held)
		return c.clauses(st.Body.List, held)
	case *ast.SelectStmt:
		hasDefault := false
		for _, cl := range st.Body.List {
			if cc, ok := cl.(*ast.CommClause); ok && cc.Comm == nil {
				hasDefault = true
			}
		}
		if !hasDefault {
			c.blocking(held, "select", st.Pos())
		}
		return c.clauses(st.Body.List, held)
	case *ast.LabeledStmt:
		return c.stmt(st.Stmt, held)
	case *ast.DeclStmt:
		if gd, ok := st.Decl.(*ast.GenDecl); ok {
			for _, sp := range gd.Specs {
				if vs, ok := sp.(*ast.ValueSpec); ok {
					for _, v := range vs.Values {
						c.expr(v, held)
					}
				}
			}
		}
		return held
	case *ast.BranchStmt, *ast.EmptyStmt:
		return held
	}
	return held
}

func (c *lctx) clauses(list []ast.Stmt, held lockset) lockset {
	var acc lockset
	first := true
	for _, cl := range list {
		var body []ast.Stmt
		h := held.clone()
		switch cc := cl.(type) {
		case *ast.CaseClause:
			for _, e := range cc.List {
				c.expr(e, held)
			}
			body = cc.Body
		case *ast.CommClause:
			if cc.Comm != nil {
				// a comm clause is part of a select: do not count it as an unguarded blocking op
				switch cm := cc.Comm.(type) {
				case *ast.SendStmt:
					c.expr(cm.Chan, held)
					c.expr(cm.Value, held)
				case *ast.ExprStmt:
					if u, ok := ast.Unparen(cm.X).(*ast.UnaryExpr); ok && u.Op == token.ARROW {
						c.expr(u.X, held)
					} else {
						h = c.stmt(cm, h)
					}
				case *ast.AssignStmt:
					if len(cm.Rhs) == 1 {
						if u, ok := ast.Unparen(cm.Rhs[0]).(*ast.UnaryExpr); ok && u.Op == token.ARROW {
							c.expr(u.X, held)
							break
						}
					}
					h = c.stmt(cm, h)
				default:
					h = c.stmt(cm, h)
				}
			}
			body = cc.Body
		}
		h = c.block(body, h)
		if terminates(body) {
			continue
		}
		if first {
			acc, first = h, false
		} else {
			acc = meet(acc, h)
		}
	}
	if first {
		return held
	}
	return meet(acc, held)
}

func (c *lctx) blocking(held lockset, what string, pos token.Pos) {
	c.la.blocks = append(c.la.blocks, blockEv{c.key, what, c.la.w.pos(pos), held.clone()})
}

func (c *lctx) isFresh(e ast.Expr) bool {
	e = ast.Unparen(e)
	switch x := e.(type) {
	case *ast.UnaryExpr:
		if x.Op == token.AND {
			_, ok := ast.Unparen(x.X).(*ast.CompositeLit)
			return ok
		}
	case *ast.CompositeLit:
		return true
	case *ast.CallExpr:
		if id, ok := x.Fun.(*ast.Ident); ok && id.Name == "new" {
			return true
		}
		if fn := callee(c.p.TypesInfo, x); fn != nil && isCtorName(fn.Name()) {
			return true
		}
	}
	return false
}

func (c *lctx) record(se *ast.SelectorExpr, rw byte, held lockset) {
	sel, ok := c.p.TypesInfo.Selections[se]
	if !ok || sel.Kind() != types.FieldVal {
		return
	}
	v, ok := sel.Obj().(*types.Var)
	if !ok {
		return
	}
	name, ok := c.la.w.fieldName[v]
	if !ok {
		return
	}
	ctor := c.ctor
	if id, ok := ast.Unparen(se.X).(*ast.Ident); ok {
		if o := c.p.TypesInfo.ObjectOf(id); o != nil && c.fresh[o] {
			ctor = true
		}
	}
	if rw != 'W' && isSyncType(v.Type()) {
		rw = 'S'
	}
	c.la.sites = append(c.la.sites, &site{field: name, ctx: c.key, pos: c.la.w.pos(se.Pos()), rw: rw, ctor: ctor, local: held.clone()})
}

// lhs records the write performed by assigning to e.
func (c *lctx) lhs(e ast.Expr, held lockset) {
	switch x := ast.Unparen(e).(type) {
	case nil:
	case *ast.SelectorExpr:
		c.record(x, 'W', held)
		c.expr(x.X, held)
	case *ast.IndexExpr:
		c.expr(x.Index, held)
		if se, ok := ast.Unparen(x.X).(*ast.SelectorExpr); ok {
			if _, isField := c.p.TypesInfo.Selections[se]; isField {
				// element write: a write of the container field (maps, slices), a read for arrays of pointers is
				// still a write of the slot
				c.record(se, 'W', held)
				c.expr(se.X, held)
				return
			}
		}
		if inner, ok := ast.Unparen(x.X).(*ast.IndexExpr); ok {
			c.lhs(inner, held) // m[a][b] = v writes the inner map reached through m
			return
		}
		c.expr(x.X, held)
	case *ast.StarExpr:
		c.expr(x.X, held)
	case *ast.Ident:
	default:
		c.expr(e, held)
	}
}

var readOnlyMethods = map[string]bool{
	"Len": true, "Front": true, "Back": true, "Load": true, "Get": true, "String": true, "Value": true,
	"Tokens": true, "TokensAt": true, "Limit": true, "Burst": true, "Peek": true, "Cap": true, "IsZero": true,
	"Before": true, "After": true, "Sub": true, "Add": true, "Equal": true, "UnixNano": true, "Unix": true,
	"Seconds": true, "Milliseconds": true, "Microseconds": true, "Nanoseconds": true, "Clone": true, "MarshalSize": true,
	"Marshal": true, "MarshalTo": true, "GetExtension": true, "GetExtensionIDs": true, "DestinationSSRC": true,
	"Next": true, "Prev": true, "Since": true, "Round": true, "Truncate": true, "Compare": true, "UnixMicro": true,
	"UnixMilli": true, "Hours": true, "Minutes": true, "Error": true,
}

var syncCallbacks = map[string]bool{"Range": true, "Slice": true, "SliceStable": true, "SortFunc": true, "Do": true,
	"ForEach": true, "IndexFunc": true, "ContainsFunc": true, "DeleteFunc": true}

// expr records the reads (and call effects) of an expression.
func (c *lctx) expr(e ast.Expr, held lockset) {
	if e == nil {
		return
	}
	ast.Inspect(e, func(n ast.Node) bool {
		switch x := n.(type) {
		case *ast.FuncLit:
			if !c.done[x] {
				c.escaping(x, "lit")
			}
			return false
		case *ast.SelectorExpr:
			c.record(x, 'R', held)
			return true
		case *ast.UnaryExpr:
			if x.Op == token.ARROW {
				c.blocking(held, "chan recv", x.Pos())
			}
			return true
		case *ast.CallExpr:
			c.call(x, held)
			return false
		}
		return true
	})
}

func (c *lctx) call(call *ast.CallExpr, held lockset) {
	info := c.p.TypesInfo
	fn := callee(info, call)
	// builtins with write effects
	if id, ok := call.Fun.(*ast.Ident); ok {
		switch id.Name {
		case "delete", "clear", "copy":
			if len(call.Args) > 0 {
				c.lhsContainer(call.Args[0], held)
				for _, a := range call.Args[1:] {
					c.expr(a, held)
				}
				return
			}
		}
	}
	// sync/atomic functions on &x.f
	if fn != nil && fn.Pkg() != nil && fn.Pkg().Path() == "sync/atomic" && len(call.Args) > 0 {
		if u, ok := ast.Unparen(call.Args[0]).(*ast.UnaryExpr); ok && u.Op == token.AND {
			if se, ok := ast.Unparen(u.X).(*ast.SelectorExpr); ok {
				c.record(se, 'A', held)
				c.expr(se.X, held)
				for _, a := range call.Args[1:] {
					c.expr(a, held)
				}
				return
			}
		}
	}
	// arguments: function literals passed to known synchronous callbacks run under the caller's locks
	name := ""
	if fn != nil {
		name = fn.Name()
	}
	for _, a := range call.Args {
		if lit, ok := ast.Unparen(a).(*ast.FuncLit); ok && syncCallbacks[name] {
			c.done[lit] = true
			c.block(lit.Body.List, held.clone())
			continue
		}
		c.expr(a, held)
	}
	// a call of a func-typed struct field: a callback supplied from outside runs with our locks held
	if fse, ok := ast.Unparen(call.Fun).(*ast.SelectorExpr); ok {
		if fsel, ok := info.Selections[fse]; ok && fsel.Kind() == types.FieldVal {
			if _, isFunc := fsel.Obj().Type().Underlying().(*types.Signature); isFunc {
				if v, ok := fsel.Obj().(*types.Var); ok {
					if n, ok := c.la.w.fieldName[v]; ok {
						c.la.cbCalls = append(c.la.cbCalls, blockEv{c.key, n, c.la.w.pos(call.Pos()), held.clone()})
					}
				}
			}
		}
	}
	// the function expression itself
	switch f := ast.Unparen(call.Fun).(type) {
	case *ast.SelectorExpr:
		if sel, ok := info.Selections[f]; ok && sel.Kind() == types.MethodVal {
			// method call on x: is x a field of a tracked struct?
			if rse, ok := ast.Unparen(f.X).(*ast.SelectorExpr); ok {
				if rsel, ok := info.Selections[rse]; ok && rsel.Kind() == types.FieldVal {
					rw := byte('R')
					if v, ok := rsel.Obj().(*types.Var); ok && c.mutatesThroughMethod(v.Type(), f.Sel.Name) {
						rw = 'W'
					}
					c.record(rse, rw, held)
					c.expr(rse.X, held)
				} else {
					c.expr(f.X, held)
				}
			} else {
				c.expr(f.X, held)
			}
		} else {
			c.expr(f, held)
		}
	case *ast.FuncLit:
		c.done[f] = true
		c.block(f.Body.List, held.clone())
	default:
		c.expr(call.Fun, held)
	}
	if fn != nil && fn.Pkg() != nil && strings.HasPrefix(fn.Pkg().Path(), modPath) {
		c.la.calls = append(c.la.calls, callSite{caller: c.key, callee: objKey(fn), held: held.clone(), pos: c.la.w.pos(call.Pos())})
	}
	// a call through an interface method: every implementation in the module is a possible callee
	if fn != nil {
		if sig, ok := fn.Type().(*types.Signature); ok && sig.Recv() != nil {
			recvT := sig.Recv().Type()
			// prefer the static type of the receiver expression: a method promoted from an embedded interface
			// (Interceptor embeds io.Closer) must be implemented by a type of the OUTER interface
			if fse, ok := ast.Unparen(call.Fun).(*ast.SelectorExpr); ok {
				if t := info.TypeOf(fse.X); t != nil {
					if _, isIface := t.Underlying().(*types.Interface); isIface {
						recvT = t
					}
				}
			}
			if it, ok := recvT.Underlying().(*types.Interface); ok {
				for _, impl := range c.la.w.implementations(it, fn.Name()) {
					c.la.calls = append(c.la.calls, callSite{caller: c.key, callee: impl, held: held.clone(), pos: c.la.w.pos(call.Pos())})
				}
			}
		}
	}
	if fn != nil && fn.Pkg() != nil && fn.Pkg().Path() == "sync" && fn.Name() == "Wait" {
		c.blocking(held, "wg.Wait", call.Pos())
	}
}

// mutatesThroughMethod: calling a method on a field whose type lives outside the module and is not
// self-synchronised mutates the pointee unless the method is known to be read-only.
func (c *lctx) mutatesThroughMethod(t types.Type, method string) bool {
	if isSyncType(t) {
		return false
	}
	if _, ok := t.Underlying().(*types.Interface); ok {
		return false // interface values (loggers, writers, readers) synchronise themselves
	}
	if p, ok := t.(*types.Pointer); ok {
		t = p.Elem()
	}
	nt, ok := t.(*types.Named)
	if !ok || nt.Obj().Pkg() == nil {
		return false
	}
	path := nt.Obj().Pkg().Path()
	if strings.HasPrefix(path, modPath) {
		return false // analysed in the callee
	}
	if path == "golang.org/x/time/rate" || path == "time" {
		return false // rate.Limiter is documented safe for concurrent use; time values are immutable
	}
	return !readOnlyMethods[method]
}

func (c *lctx) lhsContainer(e ast.Expr, held lockset) {
	switch x := ast.Unparen(e).(type) {
	case *ast.SelectorExpr:
		c.record(x, 'W', held)
		c.expr(x.X, held)
	case *ast.IndexExpr:
		c.lhs(x, held)
	case *ast.SliceExpr:
		c.lhsContainer(x.X, held)
		c.expr(x.Low, held)
		c.expr(x.High, held)
	default:
		c.expr(e, held)
	}
}

// escaping walks a function literal that may run later / elsewhere: a new root context.
func (c *lctx) escaping(lit *ast.FuncLit, kind string) {
	c.done[lit] = true
	key := fmt.Sprintf("%s$%s%d", c.key, kind, c.la.w.fset.Position(lit.Pos()).Line)
	sub := &lctx{la: c.la, p: c.p, key: key, ctor: c.ctor && kind != "go", fresh: map[types.Object]bool{}, done: c.done}
	c.la.ctxs[key] = true
	c.la.roots[key] = true
	sub.block(lit.Body.List, lockset{})
}

// ---------------------------------------------------------------------------------------

type fieldFacts struct {
	name  string
	sites []string // canonical, deduplicated
}

func genLockFacts(w *world, dump bool) string {
	la := analyseLocks(w)
	entry := la.entries()
	lockIDs := map[string]int{}
	var lockNames []string
	lid := func(n string) int {
		if i, ok := lockIDs[n]; ok {
			return i
		}
		lockIDs[n] = len(lockNames)
		lockNames = append(lockNames, n)
		return lockIDs[n]
	}
	ctxIDs := map[string]int{}
	var ctxNames []string
	cid := func(n string) int {
		if i, ok := ctxIDs[n]; ok {
			return i
		}
		ctxIDs[n] = len(ctxNames)
		ctxNames = append(ctxNames, n)
		return ctxIDs[n]
	}
	// stable numbering: sort names first
	{
		var ls, cs []string
		seenL, seenC := map[string]bool{}, map[string]bool{}
		for _, s := range la.sites {
			full := join(entry[s.ctx], s.local)
			for l := range full {
				if !seenL[l] {
					seenL[l] = true
					ls = append(ls, l)
				}
			}
			if !seenC[s.ctx] {
				seenC[s.ctx] = true
				cs = append(cs, s.ctx)
			}
		}
		for _, a := range la.acquires {
			for l := range join(entry[a.ctx], a.held) {
				if !seenL[l] {
					seenL[l] = true
					ls = append(ls, l)
				}
			}
			if !seenL[a.name] {
				seenL[a.name] = true
				ls = append(ls, a.name)
			}
		}
		for _, bl := range [][]blockEv{la.blocks, la.cbCalls} {
			for _, b := range bl {
				for l := range join(entry[b.ctx], b.held) {
					if !seenL[l] {
						seenL[l] = true
						ls = append(ls, l)
					}
				}
			}
		}
		sort.Strings(ls)
		sort.Strings(cs)
		for _, l := range ls {
			lid(l)
		}
		for _, x := range cs {
			cid(x)
		}
	}
	byField := map[string]map[string]string{} // field -> canonical site -> human text
	for _, s := range la.sites {
		full := join(entry[s.ctx], s.local)
		var ls []string
		var ks []string
		for l := range full {
			ks = append(ks, l)
		}
		sort.Slice(ks, func(i, j int) bool { return lid(ks[i]) < lid(ks[j]) })
		for _, l := range ks {
			m := ".r"
			if full[l] == 'W' {
				m = ".w"
			}
			ls = append(ls, fmt.Sprintf("(%d, %s)", lid(l), m))
		}
		kind := map[byte]string{'R': ".read", 'W': ".write", 'A': ".atomic", 'S': ".syncUse"}[s.rw]
		canon := fmt.Sprintf("{ ctx := %d, kind := %s, ctor := %v, locks := [%s] }", cid(s.ctx), kind, s.ctor, strings.Join(ls, ", "))
		if byField[s.field] == nil {
			byField[s.field] = map[string]string{}
		}
		if _, ok := byField[s.field][canon]; !ok {
			byField[s.field][canon] = fmt.Sprintf("%s %c ctor=%v %s @%s", s.ctx, s.rw, s.ctor, full, s.pos)
		}
	}
	var fields []string
	for f := range byField {
		fields = append(fields, f)
	}
	sort.Strings(fields)
	var sb strings.Builder
	sb.WriteString("-- GENERATED by /verif/extract (fact LockFacts) from /repo on every run. Do not edit.\n")
	sb.WriteString("import Interceptor.Facts.LockTypes\nnamespace Interceptor.Gen.LockFacts\nopen Interceptor.Facts\n\n")
	sb.WriteString("def lockNames : List String := [\n")
	for i, l := range lockNames {
		fmt.Fprintf(&sb, "  %s%s -- %d\n", leanStr(l), comma(i, len(lockNames)), i)
	}
	sb.WriteString("]\n\n-- function contexts, as byte lists (strings are expensive to take apart in the kernel)\ndef ctxNames : List Name := [\n")
	for i, l := range ctxNames {
		fmt.Fprintf(&sb, "  %s%s -- %d %s\n", leanBytes(l), comma(i, len(ctxNames)), i, l)
	}
	sb.WriteString("]\n\n")
	// one definition per field keeps elaboration fast
	for i, f := range fields {
		var cs []string
		for c := range byField[f] {
			cs = append(cs, c)
		}
		sort.Strings(cs)
		fmt.Fprintf(&sb, "def f%d : FieldSites := { label := %s, name := %s, sites := [\n", i, leanStr(f), leanBytes(f))
		for j, c := range cs {
			fmt.Fprintf(&sb, "  %s%s\n", c, comma(j, len(cs)))
		}
		sb.WriteString("] }\n")
		if dump {
			fmt.Println(f)
			for _, c := range cs {
				fmt.Println("    ", byField[f][c])
			}
		}
	}
	sb.WriteString("\ndef fields : List FieldSites := [")
	for i := range fields {
		if i > 0 {
			sb.WriteString(", ")
		}
		if i%12 == 0 {
			sb.WriteString("\n  ")
		}
		fmt.Fprintf(&sb, "f%d", i)
	}
	sb.WriteString("]\n\n")
	// lock order edges
	seenE := map[string]bool{}
	var es []string
	for _, a := range la.acquires {
		for from := range join(entry[a.ctx], a.held) {
			k := fmt.Sprintf("(%d, %d)", lid(from), lid(a.name))
			if !seenE[k] {
				seenE[k] = true
				es = append(es, k)
				if dump {
					fmt.Println("ORDER", from, "->", a.name, a.ctx, a.pos)
				}
			}
		}
	}
	sort.Strings(es)
	fmt.Fprintf(&sb, "def lockOrder : List (Nat × Nat) := [%s]\n\n", strings.Join(es, ", "))
	// blocking operations under a lock
	seenB := map[string]bool{}
	var bs []string
	for _, b := range la.blocks {
		for l := range join(entry[b.ctx], b.held) {
			k := fmt.Sprintf("(%s, %s, %s)", leanBytes(b.ctx), leanBytes(l), leanStr(b.what))
			if !seenB[k] {
				seenB[k] = true
				bs = append(bs, k)
				if dump {
					fmt.Println("BLOCKING-UNDER-LOCK", b.ctx, l, b.what, b.pos)
				}
			}
		}
	}
	sort.Strings(bs)
	fmt.Fprintf(&sb, "def blockingUnderLock : List (Name × Name × String) := [%s]\n\n", strings.Join(bs, ", "))
	// callbacks invoked while a lock is held
	seenC := map[string]bool{}
	var cs2 []string
	for _, b := range la.cbCalls {
		for l := range join(entry[b.ctx], b.held) {
			k := fmt.Sprintf("(%s, %s, %d)", leanBytes(b.ctx), leanBytes(b.what), lid(l))
			if !seenC[k] {
				seenC[k] = true
				cs2 = append(cs2, k)
				if dump {
					fmt.Println("CALLBACK-UNDER-LOCK", b.ctx, b.what, l, b.pos)
				}
			}
		}
	}
	sort.Strings(cs2)
	fmt.Fprintf(&sb, "def callbackUnderLock : List (Name × Name × Nat) := [%s]\n\n", strings.Join(cs2, ", "))
	sb.WriteString("end Interceptor.Gen.LockFacts\n")
	return sb.String()
}

func comma(i, n int) string {
	if i+1 < n {
		return ","
	}
	return ""
}

// implementations lists module methods named `method` on named types that implement `it`.
func (w *world) implementations(it *types.Interface, method string) []string {
	var r []string
	for _, p := range w.pkgs {
		sc := p.Types.Scope()
		for _, n := range sc.Names() {
			tn, ok := sc.Lookup(n).(*types.TypeName)
			if !ok || tn.IsAlias() {
				continue
			}
			if _, isIface := tn.Type().Underlying().(*types.Interface); isIface {
				continue
			}
			for _, t := range []types.Type{tn.Type(), types.NewPointer(tn.Type())} {
				if types.Implements(t, it) {
					r = append(r, shortPkg(p.PkgPath)+"."+tn.Name()+"."+method)
					break
				}
			}
		}
	}
	return r
}

func exportedName(key string) bool {
	i := strings.LastIndex(key, ".")
	n := key[i+1:]
	return n != "" && n[0] >= 'A' && n[0] <= 'Z'
}

func leanBytes(s string) string {
	// a name is the pair (length, big-endian base-256 value): cheap to elaborate and to compare in the kernel
	n := new(big.Int)
	for i := 0; i < len(s); i++ {
		n.Lsh(n, 8)
		n.Or(n, big.NewInt(int64(s[i])))
	}
	return fmt.Sprintf("(%d, %s)", len(s), n.String())
}

package main

import (
	_ "embed"
	"fmt"
	"go/ast"
	"go/constant"
	"go/token"
	"go/types"
	"regexp"
	"sort"
	"strings"

	"golang.org/x/tools/go/packages"
)

// FnDefs: a translator of a small, explicit subset of Go into pure Lean definitions.  Every function
// named in fnList is re-translated from /repo's current source on every run into
// lean/Interceptor/Gen/FnDefs.lean; Facts/Fn*.lean then proves each generated definition equal to the
// hand-written model the property theorems are about (under explicit no-overflow bounds).  A change
// of the arithmetic or of a branch in one of these functions therefore changes the generated
// definition and breaks the equivalence theorem (or leaves it intact if the change is harmless).
//
// Subset: integer types of every width (fixed-width wrap-around made explicit: u8/u16/u32/u64/s8../s64 of
// Base/GoSem.lean after every arithmetic operation), bool, float64 (exact binary64 arithmetic of
// Base/F64.lean), time.Time / time.Duration (int64 nanoseconds), slices of integers (List Int; an
// out-of-range read yields 0 — panics are C02's subject), struct receivers (a Lean structure with
// the supported fields; pointer-receiver methods that assign a field return the updated receiver),
// if/else, switch, assignments, op-assignments, ++/--, for loops without return inside (a fuelled
// `GoSem.loop`), calls to other translated functions, len/min/max/append.
// Everything else (pointers, maps, interfaces, channels, closures, defer, goto, labels) makes the
// function UNTRANSLATABLE, which is reported in the generated file and fails Facts/FnList.lean.

// the functions to translate, callees before callers: extract/fn.list
//
//go:embed fn.list
var fnListText string

var fnList = func() []string {
	var l []string
	for _, ln := range strings.Split(fnListText, "\n") {
		ln = strings.TrimSpace(ln)
		if ln != "" && !strings.HasPrefix(ln, "#") {
			l = append(l, ln)
		}
	}
	return l
}()

type fnInfo struct {
	key      string
	leanName string
	mutates  bool // pointer receiver whose fields are assigned: result is (value, receiver) or receiver
	hasRecv  bool
	nres     int
	partial  bool // contains a loop: result wrapped in Option
	obj      *types.Func
}

type fnTr struct {
	w      *world
	p      *packages.Package
	fns    map[*types.Func]*fnInfo
	cur    *fnInfo
	recv   types.Object
	names  map[types.Object]string
	used   map[string]int
	retType string            // Lean type of the current function's result (without Option)
	loopTuple string          // non-empty while translating a loop body that contains a return
	structs map[string]*types.Named // lean struct name -> type
	subst      map[*ast.CallExpr]string   // immediately-invoked function literals already bound to a temporary
	nTmp       int
	tmpOf      map[*ast.CallExpr]string
	ptrParams  map[types.Object]bool // non-receiver parameters of pointer type: read-only in the value model
	viaField   bool                  // assignTo is updating a field/entry of the target, not replacing it
	retH       []func(vals []string, d int) string // return handlers of inlined function literals
	refs       map[string]bool            // groups referenced by the function being translated
	structRefs map[string]map[string]bool // struct -> groups of the structs it embeds as fields
	structOrder []string
}

type trErr struct{ msg string }

func (t *fnTr) fail(n ast.Node, format string, a ...any) {
	pos := ""
	if n != nil {
		pos = t.w.pos(n.Pos()) + ": "
	}
	panic(trErr{pos + fmt.Sprintf(format, a...)})
}

var leanKeywords = map[string]bool{"end": true, "from": true, "at": true, "in": true, "do": true, "then": true, "else": true,
	"if": true, "fun": true, "let": true, "have": true, "show": true, "match": true, "with": true, "where": true,
	"open": true, "section": true, "namespace": true, "def": true, "theorem": true, "instance": true, "structure": true,
	"class": true, "by": true, "for": true, "return": true, "mut": true, "Type": true, "Prop": true, "Sort": true,
	"init": false, "local": true, "private": true, "partial": true, "unsafe": true, "macro": true, "syntax": true, "export": true,
	"import": true, "variable": true, "universe": true, "abbrev": true, "example": true, "axiom": true, "deriving": true,
	"extends": true, "using": true, "calc": true, "nomatch": true, "nofun": true, "break": true, "continue": true, "try": true, "catch": true, "finally": true, "unless": true, "prefix": true, "infix": true, "notation": true, "postfix": true, "infixl": true, "infixr": true, "set_option": true, "attribute": true, "mutual": true, "inductive": true, "opaque": true, "noncomputable": true, "protected": true, "scoped": true, "omit": true, "include": true, "fuel": true, "until": true, "unless_": true, "at_": true, "to": false, "this": true, "some": true, "none": true, "take": true, "drop": true, "set": true, "len": true, "idx": true, "loop": true, "min": true, "max": true}

func (t *fnTr) name(o types.Object) string {
	if n, ok := t.names[o]; ok {
		return n
	}
	base := o.Name()
	if leanKeywords[base] {
		base += "_"
	}
	n := base
	if c := t.used[base]; c > 0 {
		n = fmt.Sprintf("%s_%d", base, c)
	}
	t.used[base]++
	t.names[o] = n
	return n
}

func fieldLean(n string) string {
	if leanKeywords[n] {
		return n + "_"
	}
	return n
}

// ---- types

type tkind int

const (
	kBad tkind = iota
	kInt
	kBool
	kFloat
	kSlice // of ints
	kStruct
	kMap // integer keys, value of a supported type (a pointer to a struct counts as the struct: record values only)
	kUnit
)

type tinfo struct {
	kind   tkind
	bits   int
	signed bool
	lean   string
	elem   string // kSlice: Lean type of the elements ("Int" for integer slices)
	isTime bool   // time.Time (zero value = year 1, not the Unix epoch)
}

func isTimeType(t types.Type, name string) bool {
	nt, ok := t.(*types.Named)
	return ok && nt.Obj().Pkg() != nil && nt.Obj().Pkg().Path() == "time" && nt.Obj().Name() == name
}

func (t *fnTr) typ(ty types.Type) tinfo {
	if isTimeType(ty, "Time") {
		return tinfo{kind: kInt, bits: 64, signed: true, lean: "Int", isTime: true}
	}
	if isTimeType(ty, "Duration") {
		return tinfo{kind: kInt, bits: 64, signed: true, lean: "Int"}
	}
	switch u := ty.Underlying().(type) {
	case *types.Basic:
		switch u.Kind() {
		case types.Bool, types.UntypedBool:
			return tinfo{kind: kBool, bits: 0, signed: false, lean: "Bool"}
		case types.Int8:
			return tinfo{kind: kInt, bits: 8, signed: true, lean: "Int"}
		case types.Int16:
			return tinfo{kind: kInt, bits: 16, signed: true, lean: "Int"}
		case types.Int32:
			return tinfo{kind: kInt, bits: 32, signed: true, lean: "Int"}
		case types.Int64, types.Int:
			return tinfo{kind: kInt, bits: 64, signed: true, lean: "Int"}
		case types.Uint8:
			return tinfo{kind: kInt, bits: 8, signed: false, lean: "Int"}
		case types.Uint16:
			return tinfo{kind: kInt, bits: 16, signed: false, lean: "Int"}
		case types.Uint32:
			return tinfo{kind: kInt, bits: 32, signed: false, lean: "Int"}
		case types.Uint64, types.Uint, types.Uintptr:
			return tinfo{kind: kInt, bits: 64, signed: false, lean: "Int"}
		case types.UntypedInt, types.UntypedRune:
			return tinfo{kind: kInt, bits: 0, signed: true, lean: "Int"}
		case types.Float64, types.UntypedFloat:
			return tinfo{kind: kFloat, bits: 64, signed: true, lean: "Rat"}
		}
	case *types.Map:
		if k := t.typ(u.Key()); k.kind == kInt {
			vt := u.Elem()
			if pt, ok := vt.Underlying().(*types.Pointer); ok {
				// a pointer value is accepted only for record structs (no pointer-receiver methods): anything
				// else could be mutated through the pointer, which a value model cannot follow
				if _, isStruct := pt.Elem().Underlying().(*types.Struct); !isStruct || hasPtrMethods(pt.Elem()) {
					return tinfo{kind: kBad}
				}
			}
			if v := t.typ(vt); v.kind == kInt || v.kind == kBool || v.kind == kFloat || v.kind == kStruct {
				return tinfo{kind: kMap, lean: "(List (Int × " + v.lean + "))", elem: v.lean}
			}
		}
	case *types.Slice:
		return t.sliceOf(u.Elem())
	case *types.Array:
		return t.sliceOf(u.Elem())
	case *types.Struct:
		if nt, ok := ty.(*types.Named); ok && nt.Obj().Pkg() != nil && structPkgOK(nt.Obj().Pkg().Path()) {
			n := t.structName(nt)
			return tinfo{kind: kStruct, bits: 0, signed: false, lean: n}
		}
	case *types.Pointer:
		if nt, ok := u.Elem().(*types.Named); ok {
			if _, ok := nt.Underlying().(*types.Struct); ok && nt.Obj().Pkg() != nil && structPkgOK(nt.Obj().Pkg().Path()) {
				n := t.structName(nt)
				return tinfo{kind: kStruct, bits: 0, signed: false, lean: n}
			}
		}
	}
	return tinfo{kind: kBad}
}

// fieldTyp: like typ, but a pointer field is a reference (aliasing), which the value model cannot express.
func (t *fnTr) fieldTyp(ty types.Type) tinfo {
	if _, isPtr := ty.Underlying().(*types.Pointer); isPtr {
		return tinfo{kind: kBad}
	}
	return t.typ(ty)
}

func structPkgOK(path string) bool {
	return strings.HasPrefix(path, modPath) || path == "github.com/pion/rtp" || path == "github.com/pion/rtcp"
}

func hasPtrMethods(t types.Type) bool {
	nt, ok := t.(*types.Named)
	if !ok {
		return false
	}
	for i := 0; i < nt.NumMethods(); i++ {
		if sig, ok := nt.Method(i).Type().(*types.Signature); ok && sig.Recv() != nil {
			if _, isPtr := sig.Recv().Type().(*types.Pointer); isPtr {
				return true
			}
		}
	}
	return false
}

// sliceOf: a slice/array whose elements are integers (List Int) or values of another supported
// non-reference type (List τ, generic operations lenG/idxG/setG/…); pointer elements are references.
func (t *fnTr) sliceOf(el types.Type) tinfo {
	if _, isPtr := el.Underlying().(*types.Pointer); isPtr {
		return tinfo{kind: kBad}
	}
	e := t.typ(el)
	switch e.kind {
	case kInt:
		return tinfo{kind: kSlice, bits: e.bits, signed: e.signed, lean: "(List Int)", elem: "Int"}
	case kBool, kFloat, kStruct:
		return tinfo{kind: kSlice, lean: "(List " + e.lean + ")", elem: e.lean}
	}
	return tinfo{kind: kBad}
}

// generic: slice operations on a non-integer element type use the G-suffixed versions.
func sop(ti tinfo, name string) string {
	if ti.elem != "" && ti.elem != "Int" {
		return name + "G"
	}
	return name
}

func (t *fnTr) structName(nt *types.Named) string {
	pk := nt.Obj().Pkg().Path()
	if strings.HasPrefix(pk, modPath) {
		pk = shortPkg(pk)
	} else {
		pk = pk[strings.LastIndex(pk, "/")+1:]
	}
	n := "S_" + pk + "_" + nt.Obj().Name()
	if t.refs != nil {
		t.refs[fnGroupOfStruct(n)] = true
	}
	if _, ok := t.structs[n]; !ok {
		t.structs[n] = nt
		t.structRefs[n] = map[string]bool{}
		// make sure nested struct fields are registered first
		st := nt.Underlying().(*types.Struct)
		for i := 0; i < st.NumFields(); i++ {
			ft := st.Field(i).Type()
			if st.Field(i).Embedded() {
				continue
			}
			// registering the field's type first puts nested structures (also as slice elements) before this one
			saveRefs := t.refs
			t.refs = map[string]bool{}
			t.fieldTyp(ft)
			for g := range t.refs {
				t.structRefs[n][g] = true
			}
			t.refs = saveRefs
		}
		t.structOrder = append(t.structOrder, n)
	}
	return n
}

func wrapName(ti tinfo) string {
	if ti.bits == 0 {
		return ""
	}
	if ti.signed {
		return fmt.Sprintf("s%d", ti.bits)
	}
	return fmt.Sprintf("u%d", ti.bits)
}

func wrap(ti tinfo, e string) string {
	if w := wrapName(ti); w != "" && ti.kind == kInt {
		return "(" + w + " " + e + ")"
	}
	return e
}

var bareNumeral = regexp.MustCompile(`^\(?-?\d+\)?$`)

// ascribe: a `let` whose value is a bare numeral needs its type written out (Lean would elaborate it as Nat).
func ascribe(ti tinfo, val string) string {
	if ti.lean != "" && ti.kind != kBad {
		return " : " + ti.lean
	}
	return ""
}

func zeroOf(ti tinfo) string {
	switch ti.kind {
	case kInt:
		if ti.isTime {
			return "zeroTime"
		}
		return "0"
	case kBool:
		return "false"
	case kFloat:
		return "(0 : Rat)"
	case kSlice, kMap:
		return "([] : " + ti.lean + ")"
	case kStruct:
		return "({} : " + ti.lean + ")"
	}
	return "()"
}

// ---- expressions

func intLit(s string) string {
	return "(" + s + " : Int)"
}

func (t *fnTr) constExpr(e ast.Expr) (string, bool) {
	tv, ok := t.p.TypesInfo.Types[e]
	if !ok || tv.Value == nil {
		return "", false
	}
	ti := t.typ(tv.Type)
	switch tv.Value.Kind() {
	case constant.Bool:
		if constant.BoolVal(tv.Value) {
			return "true", true
		}
		return "false", true
	case constant.Int:
		if ti.kind == kFloat {
			if v, exact := constant.Int64Val(tv.Value); exact && v > -(1<<53) && v < (1<<53) {
				return "(" + tv.Value.ExactString() + " : Rat)", true
			}
			return "(F64.rne (" + tv.Value.ExactString() + " : Rat))", true
		}
		return intLit(tv.Value.ExactString()), true
	case constant.Float:
		if ti.kind == kInt {
			if iv := constant.ToInt(tv.Value); iv.Kind() == constant.Int {
				return intLit(iv.ExactString()), true
			}
		}
		// an exact rational; the binary64 value of the constant is rne of it
		r := tv.Value.ExactString()
		if iv := constant.ToInt(tv.Value); iv.Kind() == constant.Int {
			// integers of magnitude below 2^53 are binary64 values: no rounding
			if v, exact := constant.Int64Val(iv); exact && v > -(1<<53) && v < (1<<53) {
				return "(" + iv.ExactString() + " : Rat)", true
			}
			return "(F64.rne (" + iv.ExactString() + " : Rat))", true
		}
		return "(F64.rne (" + r + " : Rat))", true
	}
	return "", false
}

func (t *fnTr) expr(e ast.Expr) string {
	if s, ok := t.constExpr(e); ok {
		return s
	}
	info := t.p.TypesInfo
	switch x := e.(type) {
	case *ast.ParenExpr:
		return t.expr(x.X)
	case *ast.Ident:
		o := info.ObjectOf(x)
		if o == nil {
			t.fail(e, "unknown identifier %s", x.Name)
		}
		if _, isNil := o.(*types.Nil); isNil {
			// a nil slice and an empty slice are not distinguished; nil of any other type cannot be
			// combined with a supported expression, so the context rejects it
			return "[]"
		}
		if _, isVar := o.(*types.Var); !isVar {
			t.fail(e, "identifier %s is not a variable", x.Name)
		}
		if t.typ(o.Type()).kind == kBad {
			t.fail(e, "variable %s has unsupported type %s", x.Name, o.Type())
		}
		if o.Parent() == o.Pkg().Scope() {
			t.fail(e, "package-level variable %s", x.Name)
		}
		return t.name(o)
	case *ast.SelectorExpr:
		sel, ok := info.Selections[x]
		if !ok || sel.Kind() != types.FieldVal {
			t.fail(e, "unsupported selector %s", exprText(e))
		}
		if t.fieldTyp(sel.Type()).kind == kBad {
			t.fail(e, "field %s has unsupported type %s", exprText(e), sel.Type())
		}
		if len(sel.Index()) != 1 {
			t.fail(e, "embedded field access %s", exprText(e))
		}
		return t.expr(x.X) + "." + fieldLean(x.Sel.Name)
	case *ast.StarExpr:
		t.fail(e, "pointer dereference")
	case *ast.UnaryExpr:
		if x.Op == token.AND {
			if cl, ok := ast.Unparen(x.X).(*ast.CompositeLit); ok && t.typ(info.TypeOf(e)).kind == kStruct {
				return t.composite(cl, info.TypeOf(cl)) // a pointer to a fresh struct is the struct value
			}
		}
		ti := t.typ(info.TypeOf(e))
		switch x.Op {
		case token.NOT:
			return "(!" + t.expr(x.X) + ")"
		case token.SUB:
			if ti.kind == kFloat {
				return "(-" + t.expr(x.X) + ")"
			}
			return wrap(ti, "(0 - "+t.expr(x.X)+")")
		case token.ADD:
			return t.expr(x.X)
		}
		t.fail(e, "unary operator %s", x.Op)
	case *ast.BinaryExpr:
		return t.binary(x)
	case *ast.CallExpr:
		if s, ok := t.subst[x]; ok {
			return s
		}
		return t.call(x, true)
	case *ast.IndexExpr:
		bt := t.typ(info.TypeOf(x.X))
		if bt.kind == kMap {
			return "(mapGet " + t.expr(x.X) + " " + t.expr(x.Index) + ")"
		}
		if bt.kind != kSlice {
			t.fail(e, "index into %s", info.TypeOf(x.X))
		}
		return "(" + sop(bt, "idx") + " " + t.expr(x.X) + " " + t.expr(x.Index) + ")"
	case *ast.CompositeLit:
		return t.composite(x, info.TypeOf(e))
	case *ast.SliceExpr:
		bt := t.typ(info.TypeOf(x.X))
		if bt.kind != kSlice || x.Slice3 {
			t.fail(e, "slice expression %s", exprText(e))
		}
		r := t.expr(x.X)
		if x.High != nil {
			r = "(" + sop(bt, "take") + " " + r + " " + t.expr(x.High) + ")"
		}
		if x.Low != nil {
			r = "(" + sop(bt, "drop") + " " + r + " " + t.expr(x.Low) + ")"
		}
		return r
	}
	t.fail(e, "unsupported expression %T %s", e, exprText(e))
	return ""
}

// composite literal: a slice of supported elements, or a struct with keyed fields.
func (t *fnTr) composite(x *ast.CompositeLit, ty types.Type) string {
	ti := t.typ(ty)
	switch ti.kind {
	case kMap:
		if len(x.Elts) != 0 {
			t.fail(x, "non-empty map literal")
		}
		return "([] : " + ti.lean + ")"
	case kSlice:
		var el []string
		var elemT types.Type
		switch u := ty.Underlying().(type) {
		case *types.Slice:
			elemT = u.Elem()
		case *types.Array:
			elemT = u.Elem()
		}
		for _, v := range x.Elts {
			if _, kv := v.(*ast.KeyValueExpr); kv {
				t.fail(x, "keyed slice literal")
			}
			if cl, ok := v.(*ast.CompositeLit); ok && cl.Type == nil && elemT != nil {
				el = append(el, t.composite(cl, elemT)) // elided element type
			} else {
				el = append(el, t.expr(v))
			}
		}
		return "([" + strings.Join(el, ", ") + "] : " + ti.lean + ")"
	case kStruct:
		var fs []string
		for _, v := range x.Elts {
			kv, ok := v.(*ast.KeyValueExpr)
			if !ok {
				t.fail(x, "positional struct literal")
			}
			id, ok := kv.Key.(*ast.Ident)
			if !ok {
				t.fail(x, "struct literal key")
			}
			fo, _ := t.p.TypesInfo.ObjectOf(id).(*types.Var)
			if fo == nil || t.fieldTyp(fo.Type()).kind == kBad {
				t.fail(x, "field %s of the literal has unsupported type", id.Name)
			}
			var val string
			if cl, ok := kv.Value.(*ast.CompositeLit); ok && cl.Type == nil {
				val = t.composite(cl, fo.Type())
			} else {
				val = t.expr(kv.Value)
			}
			fs = append(fs, fieldLean(id.Name)+" := "+val)
		}
		return "({ " + strings.Join(fs, ", ") + " } : " + ti.lean + ")"
	}
	t.fail(x, "composite literal %s", exprText(x))
	return ""
}

func (t *fnTr) binary(x *ast.BinaryExpr) string {
	info := t.p.TypesInfo
	rt := t.typ(info.TypeOf(x))
	lt := t.typ(info.TypeOf(x.X))
	if tv, ok := info.Types[x.X]; ok && tv.IsNil() {
		lt = t.typ(info.TypeOf(x.Y))
	}
	a, b := t.expr(x.X), t.expr(x.Y)
	switch x.Op {
	case token.LAND:
		return "(" + a + " && " + b + ")"
	case token.LOR:
		return "(" + a + " || " + b + ")"
	case token.EQL, token.NEQ, token.LSS, token.LEQ, token.GTR, token.GEQ:
		op := map[token.Token]string{token.EQL: "=", token.NEQ: "≠", token.LSS: "<", token.LEQ: "≤", token.GTR: ">", token.GEQ: "≥"}[x.Op]
		if lt.kind == kMap {
			t.fail(x, "map comparison")
		}
		if lt.kind == kSlice {
			// only comparison with nil is legal Go
			other := x.Y
			if tv, ok := info.Types[x.X]; ok && tv.IsNil() {
				other = x.X
				a = b
			}
			if tv, ok := info.Types[other]; !ok || !tv.IsNil() {
				t.fail(x, "slice comparison")
			}
			if x.Op == token.EQL {
				return "(decide (" + sop(lt, "len") + " " + a + " = 0))"
			}
			return "(decide (" + sop(lt, "len") + " " + a + " ≠ 0))"
		}
		if lt.kind == kBool {
			if x.Op == token.EQL {
				return "(" + a + " == " + b + ")"
			}
			return "(" + a + " != " + b + ")"
		}
		if lt.kind != kInt && lt.kind != kFloat {
			t.fail(x, "comparison of %s", info.TypeOf(x.X))
		}
		return "(decide (" + a + " " + op + " " + b + "))"
	}
	if rt.kind == kFloat {
		switch x.Op {
		case token.ADD:
			return "(F64.add " + a + " " + b + ")"
		case token.SUB:
			return "(F64.sub " + a + " " + b + ")"
		case token.MUL:
			return "(F64.mul " + a + " " + b + ")"
		case token.QUO:
			return "(F64.div " + a + " " + b + ")"
		}
		t.fail(x, "float operator %s", x.Op)
	}
	if rt.kind != kInt {
		t.fail(x, "operator %s on %s", x.Op, info.TypeOf(x))
	}
	switch x.Op {
	case token.ADD:
		return wrap(rt, "("+a+" + "+b+")")
	case token.SUB:
		return wrap(rt, "("+a+" - "+b+")")
	case token.MUL:
		return wrap(rt, "("+a+" * "+b+")")
	case token.QUO:
		if rt.signed {
			return wrap(rt, "(quo "+a+" "+b+")")
		}
		return "(" + a + " / " + b + ")"
	case token.REM:
		if rt.signed {
			return "(rem " + a + " " + b + ")"
		}
		return "(" + a + " % " + b + ")"
	case token.SHL:
		return wrap(rt, "(shl "+a+" "+b+")")
	case token.SHR:
		return "(shr " + a + " " + b + ")"
	case token.AND:
		return wrap(rt, "(band "+a+" "+b+")")
	case token.OR:
		return wrap(rt, "(bor "+a+" "+b+")")
	case token.XOR:
		return wrap(rt, "(bxor "+a+" "+b+")")
	case token.AND_NOT:
		return wrap(rt, "(bandnot "+a+" "+b+")")
	}
	t.fail(x, "operator %s", x.Op)
	return ""
}

// conversion T(e)
func (t *fnTr) convert(call *ast.CallExpr, to types.Type) string {
	info := t.p.TypesInfo
	from := info.TypeOf(call.Args[0])
	ft, tt := t.typ(from), t.typ(to)
	a := t.expr(call.Args[0])
	switch {
	case ft.kind == kInt && tt.kind == kInt:
		// value-preserving widenings need no wrap
		if ft.bits != 0 && (ft.signed == tt.signed && ft.bits <= tt.bits || !ft.signed && tt.signed && ft.bits < tt.bits) {
			return a
		}
		return wrap(tt, a)
	case ft.kind == kInt && tt.kind == kFloat:
		return "(F64.ofInt " + a + ")"
	case ft.kind == kFloat && tt.kind == kInt:
		// Go: float→integer conversion truncates toward zero; out-of-range is implementation-specific
		// (amd64: via int64, then narrowed) — Base/F64.toInt64 models the amd64 behaviour.
		if tt.bits == 64 && tt.signed {
			return "(F64.toInt64 " + a + ")"
		}
		return wrap(tt, "(F64.toInt64 "+a+")")
	case ft.kind == kFloat && tt.kind == kFloat:
		return a
	case ft.kind == kBool && tt.kind == kBool:
		return a
	}
	t.fail(call, "conversion %s -> %s", from, to)
	return ""
}

// call translates a call expression.  asExpr: the value is used (otherwise only the receiver update).
func (t *fnTr) call(call *ast.CallExpr, asExpr bool) string {
	info := t.p.TypesInfo
	if tv, ok := info.Types[call.Fun]; ok && tv.IsType() {
		return t.convert(call, tv.Type)
	}
	// builtins
	if id, ok := ast.Unparen(call.Fun).(*ast.Ident); ok {
		if _, isB := info.Uses[id].(*types.Builtin); isB {
			switch id.Name {
			case "len":
				lt := t.typ(info.TypeOf(call.Args[0]))
				if lt.kind == kMap {
					return "(mapLen " + t.expr(call.Args[0]) + ")"
				}
				if lt.kind != kSlice {
					t.fail(call, "len of %s", info.TypeOf(call.Args[0]))
				}
				return "(" + sop(lt, "len") + " " + t.expr(call.Args[0]) + ")"
			case "min", "max":
				ti := t.typ(info.TypeOf(call))
				if ti.kind != kInt {
					t.fail(call, "%s of %s", id.Name, info.TypeOf(call))
				}
				s := t.expr(call.Args[0])
				for _, a := range call.Args[1:] {
					s = "(" + id.Name + " " + s + " " + t.expr(a) + ")"
				}
				return s
			case "make":
				mt := t.typ(info.TypeOf(call))
				if mt.kind == kMap {
					return "([] : " + mt.lean + ")"
				}
				if mt.kind != kSlice || len(call.Args) != 2 {
					t.fail(call, "make of %s", info.TypeOf(call))
				}
				if mt.elem != "Int" {
					return "(mkSliceG (α := " + mt.elem + ") " + t.expr(call.Args[1]) + ")"
				}
				return "(mkSlice " + t.expr(call.Args[1]) + ")"
			case "append":
				if call.Ellipsis != token.NoPos {
					return "(" + t.expr(call.Args[0]) + " ++ " + t.expr(call.Args[1]) + ")"
				}
				s := t.expr(call.Args[0])
				var el []string
				for _, a := range call.Args[1:] {
					el = append(el, t.expr(a))
				}
				return "(" + s + " ++ [" + strings.Join(el, ", ") + "])"
			}
			t.fail(call, "builtin %s", id.Name)
		}
	}
	fn := callee(info, call)
	if fn == nil {
		t.fail(call, "dynamic call %s", exprText(call.Fun))
	}
	// time package
	if fn.Pkg() != nil && fn.Pkg().Path() == "time" {
		se, _ := ast.Unparen(call.Fun).(*ast.SelectorExpr)
		if se != nil {
			sig := fn.Type().(*types.Signature)
			if sig.Recv() != nil {
				r := t.expr(se.X)
				isTime := isTimeType(sig.Recv().Type(), "Time")
				switch {
				case isTime && fn.Name() == "Sub":
					return "(timeSub " + r + " " + t.expr(call.Args[0]) + ")"
				case isTime && fn.Name() == "Before":
					return "(decide (" + r + " < " + t.expr(call.Args[0]) + "))"
				case isTime && fn.Name() == "After":
					return "(decide (" + r + " > " + t.expr(call.Args[0]) + "))"
				case isTime && fn.Name() == "Equal":
					return "(decide (" + r + " = " + t.expr(call.Args[0]) + "))"
				case isTime && fn.Name() == "IsZero":
					return "(decide (" + r + " = zeroTime))"
				case isTime && fn.Name() == "UnixNano":
					return r
				case isTime && fn.Name() == "Add":
					return "(timeAdd " + r + " " + t.expr(call.Args[0]) + ")"
				case !isTime && fn.Name() == "Seconds":
					return "(durSeconds " + r + ")"
				case !isTime && fn.Name() == "Milliseconds":
					return "(quo " + r + " 1000000)"
				case !isTime && fn.Name() == "Microseconds":
					return "(quo " + r + " 1000)"
				case !isTime && fn.Name() == "Nanoseconds":
					return r
				}
			}
		}
		if fn.Name() == "Unix" && len(call.Args) == 2 {
			return "(s64 (" + t.expr(call.Args[0]) + " * 1000000000 + " + t.expr(call.Args[1]) + "))"
		}
		t.fail(call, "time.%s", fn.Name())
	}
	fi := t.fns[fn]
	if fi == nil {
		t.fail(call, "call of untranslated function %s", objKey(fn))
	}
	t.refs[fnGroupOfKey(fi.key)] = true
	var args []string
	if fi.hasRecv {
		se, ok := ast.Unparen(call.Fun).(*ast.SelectorExpr)
		if !ok {
			t.fail(call, "method value")
		}
		args = append(args, t.expr(se.X))
	}
	for _, a := range call.Args {
		args = append(args, t.expr(a))
	}
	s := "(" + fi.leanName + " " + strings.Join(args, " ") + ")"
	if fi.partial {
		t.cur.partial = true
		t.fail(call, "call of a looping function inside an expression (%s)", fi.key)
	}
	if fi.mutates && asExpr {
		if fi.nres == 0 {
			t.fail(call, "mutating call without result used as value")
		}
		// the receiver update is lost when used as a pure expression: only allowed via statements
		t.fail(call, "mutating method %s used inside an expression", fi.key)
	}
	return s
}

// ---- statements

type cont func(d int) string

func ind(n int) string { return strings.Repeat("  ", n) }

func (t *fnTr) retValue(vals []string) string {
	var v string
	switch len(vals) {
	case 0:
		v = ""
	case 1:
		v = vals[0]
	default:
		v = "(" + strings.Join(vals, ", ") + ")"
	}
	if t.cur.mutates {
		r := t.name(t.recv)
		if v == "" {
			return r
		}
		return "(" + v + ", " + r + ")"
	}
	if v == "" {
		return "()"
	}
	return v
}

// lhs assignment: returns the `let` line(s) binding the new value `val` to target `lhs`.
func (t *fnTr) assignTo(lhs ast.Expr, val string, d int) string {
	info := t.p.TypesInfo
	switch l := ast.Unparen(lhs).(type) {
	case *ast.Ident:
		if l.Name == "_" {
			return ""
		}
		o := info.ObjectOf(l)
		if t.typ(o.Type()).kind == kBad {
			t.fail(lhs, "variable %s has unsupported type %s", l.Name, o.Type())
		}
		if _, isPtr := o.Type().Underlying().(*types.Pointer); isPtr && o != t.recv && t.viaField {
			// a field or element is assigned through a pointer that is not the receiver: whoever else holds the
			// pointer (the caller, a map entry, a slice element) would see the change — not expressible with values
			t.fail(lhs, "mutation through the pointer variable %s", l.Name)
		}
		t.viaField = false
		return ind(d) + "let " + t.name(o) + ascribe(t.typ(o.Type()), val) + " := " + val + "\n"
	case *ast.SelectorExpr:
		sel, ok := info.Selections[l]
		if !ok || sel.Kind() != types.FieldVal || len(sel.Index()) != 1 {
			t.fail(lhs, "assignment to %s", exprText(lhs))
		}
		if t.fieldTyp(sel.Type()).kind == kBad {
			t.fail(lhs, "field %s has unsupported type", exprText(lhs))
		}
		inner := "{ " + t.expr(l.X) + " with " + fieldLean(l.Sel.Name) + " := " + val + " }"
		t.viaField = true
		return t.assignTo(l.X, inner, d)
	case *ast.IndexExpr:
		lt := t.typ(info.TypeOf(l.X))
		if lt.kind == kMap {
			t.viaField = true
			return t.assignTo(l.X, "(mapSet "+t.expr(l.X)+" "+t.expr(l.Index)+" "+val+")", d)
		}
		if lt.kind != kSlice {
			t.fail(lhs, "indexed assignment into %s", info.TypeOf(l.X))
		}
		inner := "(" + sop(lt, "set") + " " + t.expr(l.X) + " " + t.expr(l.Index) + " " + val + ")"
		return t.assignTo(l.X, inner, d) // (a slice header is a value; writes into a slice parameter stay local: FNPROOFS.md)
	}
	t.fail(lhs, "assignment target %s", exprText(lhs))
	return ""
}

var opAssign = map[token.Token]token.Token{
	token.ADD_ASSIGN: token.ADD, token.SUB_ASSIGN: token.SUB, token.MUL_ASSIGN: token.MUL, token.QUO_ASSIGN: token.QUO,
	token.REM_ASSIGN: token.REM, token.AND_ASSIGN: token.AND, token.OR_ASSIGN: token.OR, token.XOR_ASSIGN: token.XOR,
	token.SHL_ASSIGN: token.SHL, token.SHR_ASSIGN: token.SHR, token.AND_NOT_ASSIGN: token.AND_NOT,
}

// call statement `x.m(args)` / `v := f(args)`: pure, receiver-mutating, or looping (Option-valued).
func (t *fnTr) callStmt(call *ast.CallExpr, lhs []ast.Expr, d int, rest cont) string {
	info := t.p.TypesInfo
	fn := callee(info, call)
	var fi *fnInfo
	if fn != nil {
		fi = t.fns[fn]
	}
	if fi == nil || (!fi.mutates && !fi.partial) {
		// pure call
		v := t.expr(call)
		switch len(lhs) {
		case 0:
			return rest(d) // pure call whose value is dropped
		case 1:
			return t.assignTo(lhs[0], v, d) + rest(d)
		default:
			s := ind(d) + "let __r := " + v + "\n"
			for i, l := range lhs {
				s += t.assignTo(l, projTuple("__r", i, len(lhs)), d)
			}
			return s + rest(d)
		}
	}
	var args []string
	var recvExpr ast.Expr
	if fi.partial {
		args = append(args, "fuel")
	}
	if fi.hasRecv {
		se, ok := ast.Unparen(call.Fun).(*ast.SelectorExpr)
		if !ok {
			t.fail(call, "method value")
		}
		recvExpr = se.X
		args = append(args, t.expr(se.X))
	}
	for _, a := range call.Args {
		args = append(args, t.expr(a))
	}
	c := "(" + fi.leanName + " " + strings.Join(args, " ") + ")"
	t.refs[fnGroupOfKey(fi.key)] = true
	s := ""
	if fi.partial {
		t.cur.partial = true
		s += ind(d) + "match " + c + " with\n" + ind(d) + "| none => none\n" + ind(d) + "| some __c =>\n"
		d++
	} else {
		s += ind(d) + "let __c := " + c + "\n"
	}
	val := "__c"
	if fi.mutates {
		if fi.nres == 0 {
			t.viaField = true
			s += t.assignTo(recvExpr, "__c", d)
			val = ""
		} else {
			t.viaField = true
			s += t.assignTo(recvExpr, "__c.2", d)
			val = "__c.1"
		}
	}
	switch len(lhs) {
	case 0:
	case 1:
		s += t.assignTo(lhs[0], val, d)
	default:
		for i, l := range lhs {
			s += t.assignTo(l, projTuple(val, i, len(lhs)), d)
		}
	}
	return s + rest(d)
}

// isMutexCall: Lock/Unlock/RLock/RUnlock of sync.Mutex / sync.RWMutex (skipped: C10's subject).
func isMutexCall(fn *types.Func) bool {
	if fn == nil || fn.Pkg() == nil || fn.Pkg().Path() != "sync" {
		return false
	}
	sig, ok := fn.Type().(*types.Signature)
	if !ok || sig.Recv() == nil {
		return false
	}
	rt := sig.Recv().Type().String()
	if !strings.HasSuffix(rt, "sync.Mutex") && !strings.HasSuffix(rt, "sync.RWMutex") {
		return false
	}
	switch fn.Name() {
	case "Lock", "Unlock", "RLock", "RUnlock":
		return true
	}
	return false
}

func projTuple(v string, i, n int) string {
	// (a, b, c) is a × (b × c)
	s := v
	for k := 0; k < i; k++ {
		s += ".2"
	}
	if i < n-1 {
		s += ".1"
	}
	return s
}

func (t *fnTr) stmts(list []ast.Stmt, d int, k cont) string {
	if len(list) == 0 {
		return k(d)
	}
	rest := func(d int) string { return t.stmts(list[1:], d, k) }
	info := t.p.TypesInfo
	if call := t.findIIFE(list[0]); call != nil {
		return t.inlineIIFE(call, d, func(d int) string { return t.stmts(list, d, k) })
	}
	switch s := list[0].(type) {
	case *ast.EmptyStmt:
		return rest(d)
	case *ast.BlockStmt:
		return t.stmts(s.List, d, rest)
	case *ast.DeferStmt:
		if isMutexCall(callee(info, s.Call)) {
			return rest(d) // locking is C10's subject
		}
		t.fail(s, "defer")
	case *ast.ExprStmt:
		call, ok := s.X.(*ast.CallExpr)
		if !ok {
			t.fail(s, "expression statement")
		}
		if isMutexCall(callee(info, call)) {
			return rest(d)
		}
		if id, ok := ast.Unparen(call.Fun).(*ast.Ident); ok && id.Name == "delete" {
			if _, isB := info.Uses[id].(*types.Builtin); isB && t.typ(info.TypeOf(call.Args[0])).kind == kMap {
				return t.assignTo(call.Args[0], "(mapDel "+t.expr(call.Args[0])+" "+t.expr(call.Args[1])+")", d) + rest(d)
			}
		}
		return t.callStmt(call, nil, d, rest)
	case *ast.DeclStmt:
		gd, ok := s.Decl.(*ast.GenDecl)
		if !ok || gd.Tok != token.VAR {
			t.fail(s, "declaration")
		}
		out := ""
		for _, sp := range gd.Specs {
			vs := sp.(*ast.ValueSpec)
			for i, n := range vs.Names {
				o := info.ObjectOf(n)
				ti := t.typ(o.Type())
				if ti.kind == kBad {
					t.fail(s, "variable %s has unsupported type %s", n.Name, o.Type())
				}
				v := zeroOf(ti)
				if i < len(vs.Values) {
					v = t.expr(vs.Values[i])
				}
				out += ind(d) + "let " + t.name(o) + ascribe(ti, v) + " := " + v + "\n"
			}
		}
		return out + rest(d)
	case *ast.IncDecStmt:
		ti := t.typ(info.TypeOf(s.X))
		op := " + 1"
		if s.Tok == token.DEC {
			op = " - 1"
		}
		return t.assignTo(s.X, wrap(ti, "("+t.expr(s.X)+op+")"), d) + rest(d)
	case *ast.AssignStmt:
		if bop, ok := opAssign[s.Tok]; ok {
			be := &ast.BinaryExpr{X: s.Lhs[0], Op: bop, Y: s.Rhs[0]}
			// type the synthetic node like its left operand
			t.p.TypesInfo.Types[be] = types.TypeAndValue{Type: info.TypeOf(s.Lhs[0])}
			v := t.binary(be)
			delete(t.p.TypesInfo.Types, be)
			return t.assignTo(s.Lhs[0], v, d) + rest(d)
		}
		if s.Tok != token.ASSIGN && s.Tok != token.DEFINE {
			t.fail(s, "assignment operator %s", s.Tok)
		}
		if len(s.Rhs) == 1 && len(s.Lhs) == 2 {
			if ix, ok := ast.Unparen(s.Rhs[0]).(*ast.IndexExpr); ok && t.typ(info.TypeOf(ix.X)).kind == kMap {
				// v, ok := m[k]
				m, k := t.expr(ix.X), t.expr(ix.Index)
				return t.assignTo(s.Lhs[0], "(mapGet "+m+" "+k+")", d) + t.assignTo(s.Lhs[1], "(mapHas "+m+" "+k+")", d) + rest(d)
			}
		}
		if len(s.Rhs) == 1 {
			if call, ok := ast.Unparen(s.Rhs[0]).(*ast.CallExpr); ok {
				if tv, isT := info.Types[call.Fun]; !(isT && tv.IsType()) {
					return t.callStmt(call, s.Lhs, d, rest)
				}
			}
		}
		if len(s.Lhs) != len(s.Rhs) {
			t.fail(s, "tuple assignment")
		}
		if len(s.Lhs) == 1 {
			return t.assignTo(s.Lhs[0], t.expr(s.Rhs[0]), d) + rest(d)
		}
		// parallel assignment: evaluate all right-hand sides first
		out := ""
		for i, r := range s.Rhs {
			out += fmt.Sprintf("%slet __t%d := %s\n", ind(d), i, t.expr(r))
		}
		for i, l := range s.Lhs {
			out += t.assignTo(l, fmt.Sprintf("__t%d", i), d)
		}
		return out + rest(d)
	case *ast.ReturnStmt:
		var vals []string
		if len(s.Results) == 1 && t.cur.nres > 1 {
			t.fail(s, "return of a multi-value call")
		}
		for _, r := range s.Results {
			vals = append(vals, t.expr(r))
		}
		if n := len(t.retH); n > 0 {
			return t.retH[n-1](vals, d)
		}
		if len(s.Results) == 0 && t.cur.nres > 0 {
			t.fail(s, "naked return with named results")
		}
		if t.loopTuple != "" {
			return ind(d) + "let __ret : Option (" + t.retType + ") := some " + t.retValue(vals) + "\n" + ind(d) + t.loopTuple + "\n"
		}
		return ind(d) + t.retValue(vals) + "\n"
	case *ast.IfStmt:
		out := ""
		if s.Init != nil {
			// the init statement's variables are scoped to the if; unique naming makes the flattening safe
			return t.stmts([]ast.Stmt{s.Init, &ast.IfStmt{If: s.If, Cond: s.Cond, Body: s.Body, Else: s.Else}}, d, rest)
		}
		c := t.expr(s.Cond)
		out += ind(d) + "if " + c + " then\n"
		out += t.stmts(s.Body.List, d+1, rest)
		out += ind(d) + "else\n"
		switch e := s.Else.(type) {
		case nil:
			out += t.stmts(nil, d+1, rest)
		case *ast.BlockStmt:
			out += t.stmts(e.List, d+1, rest)
		case *ast.IfStmt:
			out += t.stmts([]ast.Stmt{e}, d+1, rest)
		}
		return out
	case *ast.SwitchStmt:
		return t.switchStmt(s, d, rest)
	case *ast.ForStmt:
		return t.forStmt(s, d, rest)
	case *ast.RangeStmt:
		return t.rangeStmt(s, d, rest)
	}
	t.fail(list[0], "unsupported statement %T", list[0])
	return ""
}

// findIIFE: the first immediately-invoked function literal `func() T {…}()` in the expressions of a
// simple statement (or of an if/switch header) that has not been bound to a temporary yet.
func (t *fnTr) findIIFE(st ast.Stmt) *ast.CallExpr {
	var roots []ast.Node
	switch s := st.(type) {
	case *ast.AssignStmt, *ast.ReturnStmt, *ast.ExprStmt, *ast.DeclStmt, *ast.IncDecStmt:
		roots = append(roots, s)
	case *ast.IfStmt:
		if s.Init == nil && s.Cond != nil {
			roots = append(roots, s.Cond)
		}
	case *ast.SwitchStmt:
		if s.Init == nil && s.Tag != nil {
			roots = append(roots, s.Tag)
		}
	}
	var found *ast.CallExpr
	for _, r := range roots {
		ast.Inspect(r, func(n ast.Node) bool {
			if found != nil {
				return false
			}
			switch x := n.(type) {
			case *ast.CallExpr:
				if _, ok := ast.Unparen(x.Fun).(*ast.FuncLit); ok {
					if _, done := t.subst[x]; !done {
						found = x
					}
					return false // its body is translated when it is inlined
				}
			case *ast.FuncLit:
				return false
			}
			return true
		})
	}
	return found
}

// inlineIIFE translates the body of `func(params) T { … }(args)` in place: parameters are bound, every
// `return e` binds a fresh temporary to e and continues with `rest`, where the call expression reads the
// temporary.  Variables of the enclosing function are visible by name, as in Go.
func (t *fnTr) inlineIIFE(call *ast.CallExpr, d int, rest cont) string {
	lit := ast.Unparen(call.Fun).(*ast.FuncLit)
	info := t.p.TypesInfo
	nres := 0
	resLean := ""
	if lit.Type.Results != nil {
		for _, fl := range lit.Type.Results.List {
			if len(fl.Names) > 0 {
				t.fail(lit, "named results in a function literal")
			}
			rti := t.typ(info.TypeOf(fl.Type))
			if rti.kind == kBad {
				t.fail(lit, "function literal result type %s", info.TypeOf(fl.Type))
			}
			resLean = rti.lean
			nres++
		}
	}
	if nres != 1 {
		t.fail(lit, "function literal with %d results", nres)
	}
	ast.Inspect(lit.Body, func(n ast.Node) bool {
		if f, ok := n.(*ast.ForStmt); ok {
			ast.Inspect(f.Body, func(m ast.Node) bool {
				if _, isRet := m.(*ast.ReturnStmt); isRet {
					t.fail(m, "return inside a loop inside a function literal")
				}
				return true
			})
		}
		return true
	})
	out := ""
	k := 0
	for _, fl := range lit.Type.Params.List {
		for _, n := range fl.Names {
			if k >= len(call.Args) {
				t.fail(call, "variadic function literal")
			}
			o := info.ObjectOf(n)
			if t.typ(o.Type()).kind == kBad {
				t.fail(lit, "function literal parameter %s", n.Name)
			}
			out += ind(d) + "let " + t.name(o) + " := " + t.expr(call.Args[k]) + "\n"
			k++
		}
	}
	tmp, ok := t.tmpOf[call]
	if !ok {
		t.nTmp++
		tmp = fmt.Sprintf("__f%d", t.nTmp)
		t.tmpOf[call] = tmp
	}
	// the temporary is in scope only in the code that follows a `return` of the literal: the binding is
	// recorded while that continuation is translated and removed again (the continuation is translated once
	// per path that reaches it)
	var handler func(vals []string, d int) string
	handler = func(vals []string, d int) string {
		t.retH = t.retH[:len(t.retH)-1]
		t.subst[call] = tmp
		s := ind(d) + "let " + tmp + " : " + resLean + " := " + vals[0] + "\n" + rest(d)
		delete(t.subst, call)
		t.retH = append(t.retH, handler)
		return s
	}
	t.retH = append(t.retH, handler)
	saveLoop := t.loopTuple
	t.loopTuple = ""
	out += t.stmts(lit.Body.List, d, func(int) string {
		t.fail(lit, "function literal may fall off its end")
		return ""
	})
	t.loopTuple = saveLoop
	t.retH = t.retH[:len(t.retH)-1]
	return out
}

func (t *fnTr) switchStmt(s *ast.SwitchStmt, d int, rest cont) string {
	if s.Init != nil {
		return t.stmts([]ast.Stmt{s.Init, &ast.SwitchStmt{Switch: s.Switch, Tag: s.Tag, Body: s.Body}}, d, rest)
	}
	tag := ""
	if s.Tag != nil {
		tag = t.expr(s.Tag)
	}
	var clauses []*ast.CaseClause
	var def *ast.CaseClause
	for _, c := range s.Body.List {
		cc := c.(*ast.CaseClause)
		for _, st := range cc.Body {
			if b, ok := st.(*ast.BranchStmt); ok {
				t.fail(b, "%s inside switch", b.Tok)
			}
		}
		if cc.List == nil {
			def = cc
		} else {
			clauses = append(clauses, cc)
		}
	}
	var gen func(i int, d int) string
	gen = func(i int, d int) string {
		if i == len(clauses) {
			if def != nil {
				return t.stmts(def.Body, d, rest)
			}
			return t.stmts(nil, d, rest)
		}
		cc := clauses[i]
		var conds []string
		for _, e := range cc.List {
			if tag == "" {
				conds = append(conds, t.expr(e))
			} else {
				conds = append(conds, "(decide ("+tag+" = "+t.expr(e)+"))")
			}
		}
		out := ind(d) + "if " + strings.Join(conds, " || ") + " then\n"
		out += t.stmts(cc.Body, d+1, rest)
		out += ind(d) + "else\n"
		out += gen(i+1, d+1)
		return out
	}
	return gen(0, d)
}

// rangeStmt: the only range loop over a map that is translated is the order-independent idiom
//   for k := range m { if cond(k) { delete(m, k) } }      ↦   m := mapFilter (fun k => !cond k) m
func (t *fnTr) rangeStmt(s *ast.RangeStmt, d int, rest cont) string {
	info := t.p.TypesInfo
	if t.typ(info.TypeOf(s.X)).kind == kMap && s.Value == nil && s.Key != nil && len(s.Body.List) == 1 {
		if is, ok := s.Body.List[0].(*ast.IfStmt); ok && is.Init == nil && is.Else == nil && len(is.Body.List) == 1 {
			if es, ok := is.Body.List[0].(*ast.ExprStmt); ok {
				if call, ok := es.X.(*ast.CallExpr); ok {
					if id, ok := ast.Unparen(call.Fun).(*ast.Ident); ok && id.Name == "delete" && len(call.Args) == 2 &&
						exprText(call.Args[0]) == exprText(s.X) && exprText(call.Args[1]) == exprText(s.Key) {
						kid, ok := s.Key.(*ast.Ident)
						if !ok {
							t.fail(s, "range key")
						}
						k := t.name(info.ObjectOf(kid))
						cond := t.expr(is.Cond)
						return t.assignTo(s.X, "(mapFilter (fun ("+k+" : Int) => !"+cond+") "+t.expr(s.X)+")", d) + rest(d)
					}
				}
			}
		}
	}
	t.fail(s, "range loop (only `for k := range m { if c { delete(m, k) } }` over a map is supported)")
	return ""
}

// assignedVars: the variables (declared outside `n`) and receiver that statements under n assign.
func (t *fnTr) assignedVars(n ast.Node, declaredInside map[types.Object]bool) []types.Object {
	info := t.p.TypesInfo
	seen := map[types.Object]bool{}
	var out []types.Object
	add := func(e ast.Expr) {
		for {
			switch x := ast.Unparen(e).(type) {
			case *ast.SelectorExpr:
				e = x.X
				continue
			case *ast.IndexExpr:
				e = x.X
				continue
			case *ast.Ident:
				if x.Name == "_" {
					return
				}
				o := info.ObjectOf(x)
				if o != nil && !declaredInside[o] && !seen[o] {
					seen[o] = true
					out = append(out, o)
				}
			}
			return
		}
	}
	ast.Inspect(n, func(m ast.Node) bool {
		switch s := m.(type) {
		case *ast.AssignStmt:
			if s.Tok == token.DEFINE {
				for _, l := range s.Lhs {
					if id, ok := l.(*ast.Ident); ok {
						if o := info.Defs[id]; o != nil {
							declaredInside[o] = true
						}
					}
				}
			}
			for _, l := range s.Lhs {
				add(l)
			}
		case *ast.IncDecStmt:
			add(s.X)
		case *ast.DeclStmt:
			if gd, ok := s.Decl.(*ast.GenDecl); ok {
				for _, sp := range gd.Specs {
					if vs, ok := sp.(*ast.ValueSpec); ok {
						for _, n := range vs.Names {
							if o := info.Defs[n]; o != nil {
								declaredInside[o] = true
							}
						}
					}
				}
			}
		case *ast.CallExpr:
			if fn := callee(info, s); fn != nil {
				if fi := t.fns[fn]; fi != nil && fi.mutates {
					if se, ok := ast.Unparen(s.Fun).(*ast.SelectorExpr); ok {
						add(se.X)
					}
				}
			}
		}
		return true
	})
	return out
}

// for init; cond; post { body }  →  a fuelled loop over the tuple of assigned variables.
func (t *fnTr) forStmt(s *ast.ForStmt, d int, rest cont) string {
	// no break / labelled jumps inside; `continue` is supported (jumps to post); `return` sets __ret
	hasReturn := false
	ast.Inspect(s.Body, func(n ast.Node) bool {
		switch b := n.(type) {
		case *ast.ReturnStmt:
			hasReturn = true
		case *ast.BranchStmt:
			if b.Tok != token.CONTINUE || b.Label != nil {
				t.fail(b, "%s inside a loop", b.Tok)
			}
		case *ast.ForStmt, *ast.RangeStmt:
			if n != ast.Node(s.Body) {
				t.fail(n, "nested loop")
			}
		}
		return true
	})
	out := ""
	if s.Init != nil {
		out += t.stmts([]ast.Stmt{s.Init}, d, func(int) string { return "" })
	}
	inside := map[types.Object]bool{}
	loopNode := &ast.BlockStmt{List: []ast.Stmt{s.Body}}
	if s.Post != nil {
		loopNode.List = append(loopNode.List, s.Post)
	}
	vars := t.assignedVars(loopNode, inside)
	if len(vars) == 0 && !hasReturn {
		t.fail(s, "loop without state")
	}
	sort.Slice(vars, func(i, j int) bool { return t.name(vars[i]) < t.name(vars[j]) })
	var names []string
	if hasReturn {
		if t.loopTuple != "" {
			t.fail(s, "nested loops with return")
		}
		names = append(names, "__ret")
		out += ind(d) + "let __ret : Option (" + t.retType + ") := none\n"
	}
	for _, v := range vars {
		names = append(names, t.name(v))
	}
	tuple := names[0]
	if len(names) > 1 {
		tuple = "(" + strings.Join(names, ", ") + ")"
	}
	pat := "fun " + tuple + " =>"
	if len(names) > 1 {
		pat = "fun (" + strings.Join(names, ", ") + ") =>"
	}
	cond := "true"
	if s.Cond != nil {
		cond = t.expr(s.Cond)
	}
	if hasReturn {
		cond = "(__ret.isNone && " + cond + ")"
	}
	yield := func(d int) string {
		if s.Post != nil {
			return t.stmts([]ast.Stmt{s.Post}, d, func(d int) string { return ind(d) + tuple + "\n" })
		}
		return ind(d) + tuple + "\n"
	}
	// `continue` = yield
	if hasReturn {
		t.loopTuple = tuple
	}
	body := t.loopBody(s.Body.List, d+2, yield)
	t.loopTuple = ""
	t.cur.partial = true
	out += ind(d) + "match loop fuel (" + pat + " " + cond + ") (" + pat + "\n" + body + ind(d+1) + ") " + tuple + " with\n"
	out += ind(d) + "| none => none\n"
	out += ind(d) + "| some " + tuple + " =>\n"
	if hasReturn {
		out += ind(d+1) + "match __ret with\n" + ind(d+1) + "| some __r => some __r\n" + ind(d+1) + "| none =>\n"
		out += t.stmts(nil, d+2, rest)
		return out
	}
	out += t.stmts(nil, d+1, rest)
	return out
}

// loopBody translates statements where `continue` and falling off the end both yield the state.
func (t *fnTr) loopBody(list []ast.Stmt, d int, yield cont) string {
	// rewrite: a `continue` statement terminates the list with yield
	for i, st := range list {
		if b, ok := st.(*ast.BranchStmt); ok && b.Tok == token.CONTINUE {
			return t.stmts(list[:i], d, yield)
		}
	}
	return t.stmtsLoop(list, d, yield)
}

// stmtsLoop is stmts with `continue` handled inside nested if-blocks.
func (t *fnTr) stmtsLoop(list []ast.Stmt, d int, yield cont) string {
	if len(list) == 0 {
		return yield(d)
	}
	if is, ok := list[0].(*ast.IfStmt); ok && containsContinue(is) {
		if is.Init != nil {
			t.fail(is, "if-init with continue")
		}
		rest := func(d int) string { return t.stmtsLoop(list[1:], d, yield) }
		out := ind(d) + "if " + t.expr(is.Cond) + " then\n"
		out += t.loopBodyK(is.Body.List, d+1, yield, rest)
		out += ind(d) + "else\n"
		switch e := is.Else.(type) {
		case nil:
			out += rest(d+1)
		case *ast.BlockStmt:
			out += t.loopBodyK(e.List, d+1, yield, rest)
		default:
			t.fail(is, "else-if with continue")
		}
		return out
	}
	return t.stmts(list[:1], d, func(d int) string { return t.stmtsLoop(list[1:], d, yield) })
}

func (t *fnTr) loopBodyK(list []ast.Stmt, d int, yield, rest cont) string {
	for i, st := range list {
		if b, ok := st.(*ast.BranchStmt); ok && b.Tok == token.CONTINUE {
			return t.stmts(list[:i], d, yield)
		}
	}
	for _, st := range list {
		if containsContinue(st) {
			t.fail(st, "nested continue")
		}
	}
	return t.stmts(list, d, rest)
}

func containsContinue(n ast.Node) bool {
	found := false
	ast.Inspect(n, func(m ast.Node) bool {
		if b, ok := m.(*ast.BranchStmt); ok && b.Tok == token.CONTINUE {
			found = true
		}
		return !found
	})
	return found
}

// ---- functions

func (t *fnTr) mutatesRecv(fd *ast.FuncDecl, recv types.Object) bool {
	if recv == nil {
		return false
	}
	if _, isPtr := recv.Type().(*types.Pointer); !isPtr {
		return false
	}
	for _, o := range t.assignedVars(fd.Body, map[types.Object]bool{}) {
		if o == recv {
			return true
		}
	}
	return false
}

func (t *fnTr) function(fd *ast.FuncDecl, fi *fnInfo) (src string, err error) {
	defer func() {
		if r := recover(); r != nil {
			if te, ok := r.(trErr); ok {
				err = fmt.Errorf("%s", te.msg)
				return
			}
			panic(r)
		}
	}()
	info := t.p.TypesInfo
	t.cur = fi
	t.subst = map[*ast.CallExpr]string{}
	t.tmpOf = map[*ast.CallExpr]string{}
	t.ptrParams = map[types.Object]bool{}
	t.retH = nil
	t.nTmp = 0
	t.names = map[types.Object]string{}
	t.used = map[string]int{}
	t.recv = nil
	var params []string
	if fd.Recv != nil && len(fd.Recv.List) == 1 && len(fd.Recv.List[0].Names) == 1 {
		t.recv = info.ObjectOf(fd.Recv.List[0].Names[0])
		ti := t.typ(t.recv.Type())
		if ti.kind == kBad {
			t.fail(fd, "receiver type %s", t.recv.Type())
		}
		params = append(params, "("+t.name(t.recv)+" : "+ti.lean+")")
	} else if fd.Recv != nil {
		t.fail(fd, "unnamed receiver")
	}
	fi.mutates = t.mutatesRecv(fd, t.recv)
	for _, fl := range fd.Type.Params.List {
		for _, n := range fl.Names {
			o := info.ObjectOf(n)
			ti := t.typ(o.Type())
			if ti.kind == kBad {
				t.fail(fd, "parameter %s has unsupported type %s", n.Name, o.Type())
			}
			if _, isPtr := o.Type().Underlying().(*types.Pointer); isPtr {
				t.ptrParams[o] = true
			}
			params = append(params, "("+t.name(o)+" : "+ti.lean+")")
		}
		if len(fl.Names) == 0 {
			t.fail(fd, "unnamed parameter")
		}
	}
	var rts []string
	if fd.Type.Results != nil {
		for _, fl := range fd.Type.Results.List {
			if len(fl.Names) > 0 {
				t.fail(fd, "named results")
			}
			ti := t.typ(info.TypeOf(fl.Type))
			if ti.kind == kBad {
				t.fail(fd, "result type %s", info.TypeOf(fl.Type))
			}
			rts = append(rts, ti.lean)
		}
	}
	fi.nres = len(rts)
	rt := strings.Join(rts, " × ")
	if len(rts) > 1 {
		rt = "(" + rt + ")"
	}
	if fi.mutates {
		if rt == "" {
			rt = t.typ(t.recv.Type()).lean
		} else {
			rt = rt + " × " + t.typ(t.recv.Type()).lean
		}
	} else if rt == "" {
		rt = "Unit"
	}
	t.retType = rt
	t.loopTuple = ""
	body := t.stmts(fd.Body.List, 1, func(d int) string {
		if fi.nres > 0 {
			t.fail(fd, "missing return")
		}
		return ind(d) + t.retValue(nil) + "\n"
	})
	if fi.partial {
		// loops: results are wrapped into Option (none = fuel exhausted); every leaf value gets `some`
		params = append([]string{"(fuel : Nat)"}, params...)
		rt = "Option (" + rt + ")"
		body = optionLeaves(body)
	}
	src = fmt.Sprintf("/-- %s (%s) -/\ndef %s %s : %s :=\n%s", fi.key, t.w.pos(fd.Pos()), fi.leanName, strings.Join(params, " "), rt, body)
	return src, nil
}

// optionLeaves wraps every leaf line (a line that is not let/if/else/match/|) into `some (...)`.
func optionLeaves(body string) string {
	lines := strings.Split(strings.TrimRight(body, "\n"), "\n")
	for i, l := range lines {
		tr := strings.TrimSpace(l)
		if strings.HasPrefix(tr, "let ") || strings.HasPrefix(tr, "if ") || tr == "else" || strings.HasPrefix(tr, "match ") ||
			strings.HasPrefix(tr, "| ") || strings.HasPrefix(tr, ") ") || tr == "" {
			continue
		}
		// loop-internal yields are indented inside a `(fun ... =>` block: they are followed (later) by a line starting with ") "
		if insideLoopFun(lines, i) {
			continue
		}
		lines[i] = l[:len(l)-len(tr)] + "some (" + tr + ")"
	}
	return strings.Join(lines, "\n") + "\n"
}

func insideLoopFun(lines []string, i int) bool {
	depth := 0
	for j := 0; j <= i; j++ {
		tr := strings.TrimSpace(lines[j])
		if strings.HasPrefix(tr, "match loop fuel") {
			depth++
		}
		if strings.HasPrefix(tr, ") ") && j <= i {
			depth--
		}
	}
	return depth > 0
}

func fnGroupOfKey(key string) string { return key[:strings.Index(key, ".")] }

func fnGroupOfStruct(n string) string {
	// S_<group>_<Type>
	r := strings.TrimPrefix(n, "S_")
	g := r[:strings.LastIndex(r, "_")]
	if g == "rtp" || g == "rtcp" {
		return "ext"
	}
	return g
}

// genFnDefs translates every function of fn.list (so that calls across groups resolve) and emits the
// definitions and structures of one group (= Go package) as Gen/Fn_<group>.lean.
func genFnDefs(w *world, dump bool, group string) string {
	t := &fnTr{w: w, fns: map[*types.Func]*fnInfo{}, structs: map[string]*types.Named{}, structRefs: map[string]map[string]bool{}}
	decls := map[string]*ast.FuncDecl{}
	declPkg := map[string]*packages.Package{}
	for _, p := range w.pkgs {
		for _, f := range p.Syntax {
			for _, d := range f.Decls {
				if fd, ok := d.(*ast.FuncDecl); ok && fd.Body != nil {
					k := funcKey(p, fd)
					decls[k] = fd
					declPkg[k] = p
				}
			}
		}
	}
	var defs []string
	var okNames, badNames []string
	imports := map[string]bool{}
	for _, key := range fnList {
		mine := fnGroupOfKey(key) == group
		fd := decls[key]
		if fd == nil {
			if mine {
				badNames = append(badNames, key)
				defs = append(defs, fmt.Sprintf("-- UNTRANSLATABLE %s: no such function in the source", key))
			}
			continue
		}
		p := declPkg[key]
		t.p = p
		obj, _ := p.TypesInfo.Defs[fd.Name].(*types.Func)
		fi := &fnInfo{key: key, leanName: strings.ReplaceAll(key, ".", "_"), hasRecv: fd.Recv != nil, obj: obj}
		t.refs = map[string]bool{}
		src, err := t.function(fd, fi)
		if err != nil {
			if mine {
				badNames = append(badNames, key)
				defs = append(defs, fmt.Sprintf("-- UNTRANSLATABLE %s: %s", key, err))
			}
			if dump {
				fmt.Printf("UNTRANSLATABLE %s: %s\n", key, err)
			}
			continue
		}
		t.fns[obj] = fi
		if mine {
			okNames = append(okNames, key)
			defs = append(defs, src)
			for g := range t.refs {
				imports[g] = true
			}
		}
	}
	var structSrc []string
	for _, n := range t.structOrder {
		if fnGroupOfStruct(n) != group {
			continue
		}
		for g := range t.structRefs[n] {
			imports[g] = true
		}
		var sb strings.Builder
		nt := t.structs[n]
		st := nt.Underlying().(*types.Struct)
		fmt.Fprintf(&sb, "/-- %s.%s: the fields of supported type -/\nstructure %s where\n", nt.Obj().Pkg().Name(), nt.Obj().Name(), n)
		cnt := 0
		for i := 0; i < st.NumFields(); i++ {
			f := st.Field(i)
			ti := t.fieldTyp(f.Type())
			if ti.kind == kBad || f.Embedded() {
				fmt.Fprintf(&sb, "  -- %s : %s (not modelled)\n", f.Name(), f.Type())
				continue
			}
			fmt.Fprintf(&sb, "  %s : %s := %s\n", fieldLean(f.Name()), ti.lean, zeroOf(ti))
			cnt++
		}
		if cnt == 0 {
			sb.WriteString("  dummy : Unit := ()\n")
		}
		sb.WriteString("deriving Repr, DecidableEq\n")
		fmt.Fprintf(&sb, "instance : Inhabited %s := ⟨({} : %s)⟩\n\n", n, n)
		structSrc = append(structSrc, sb.String())
	}
	delete(imports, group)
	var imps []string
	for g := range imports {
		imps = append(imps, g)
	}
	sort.Strings(imps)
	var sb strings.Builder
	fmt.Fprintf(&sb, "-- GENERATED by /verif/extract (fact Fn_%s) from /repo on every run. Do not edit.\n", group)
	sb.WriteString("import Interceptor.Base.GoSem\nimport Interceptor.Base.F64\n")
	for _, g := range imps {
		fmt.Fprintf(&sb, "import Interceptor.Gen.Fn_%s\n", g)
	}
	sb.WriteString("set_option linter.unusedVariables false\nnamespace Interceptor.Gen.Fn\nopen Interceptor Interceptor.GoSem\n\n")
	for _, s := range structSrc {
		sb.WriteString(s)
	}
	for _, d := range defs {
		sb.WriteString(d)
		sb.WriteString("\n")
	}
	fmt.Fprintf(&sb, "def translated_%s : List String := [%s]\n", group, quoteAll(okNames))
	fmt.Fprintf(&sb, "def untranslatable_%s : List String := [%s]\n", group, quoteAll(badNames))
	sb.WriteString("\nend Interceptor.Gen.Fn\n")
	if dump {
		fmt.Println("translated:", okNames)
	}
	return sb.String()
}

func quoteAll(l []string) string {
	var q []string
	for _, s := range l {
		q = append(q, leanStr(s))
	}
	return strings.Join(q, ", ")
}

// genFnSurvey: which functions of the module does the translator accept as they are?  (a fixpoint over
// all functions, callees first; printed to stdout — a development aid, no Lean output)
func genFnSurvey(w *world) string {
	t := &fnTr{w: w, fns: map[*types.Func]*fnInfo{}, structs: map[string]*types.Named{}, structRefs: map[string]map[string]bool{}}
	type ent struct {
		key string
		fd  *ast.FuncDecl
		p   *packages.Package
	}
	var all []ent
	for _, p := range w.pkgs {
		for _, f := range p.Syntax {
			if strings.Contains(w.fset.Position(f.Pos()).Filename, "verif") {
				continue
			}
			for _, d := range f.Decls {
				if fd, ok := d.(*ast.FuncDecl); ok && fd.Body != nil {
					all = append(all, ent{funcKey(p, fd), fd, p})
				}
			}
		}
	}
	done := map[string]bool{}
	reason := map[string]string{}
	var order []string
	for changed := true; changed; {
		changed = false
		for _, e := range all {
			if done[e.key] {
				continue
			}
			t.p = e.p
			obj, _ := e.p.TypesInfo.Defs[e.fd.Name].(*types.Func)
			fi := &fnInfo{key: e.key, leanName: strings.ReplaceAll(e.key, ".", "_"), hasRecv: e.fd.Recv != nil, obj: obj}
			t.refs = map[string]bool{}
			if _, err := t.function(e.fd, fi); err != nil {
				reason[e.key] = err.Error()
				continue
			}
			t.fns[obj] = fi
			done[e.key] = true
			order = append(order, e.key)
			changed = true
		}
	}
	var sb strings.Builder
	for _, k := range order {
		fmt.Fprintf(&sb, "OK   %s\n", k)
	}
	for _, e := range all {
		if !done[e.key] {
			fmt.Fprintf(&sb, "NO   %-55s %s\n", e.key, reason[e.key])
		}
	}
	return sb.String()
}

#!/bin/sh
# setup_cmd: build everything from files on disk, offline.
set -e
cd "$(dirname "$0")"
REPO="${VERIF_REPO:-/repo}"
export GOFLAGS=-mod=mod GOPROXY=off GOTOOLCHAIN=local GOSUMDB=off
mkdir -p build out evidence lean/Interceptor/Audit lean/Interceptor/Gen
cp "$REPO/go.sum" harness/go.sum
(cd harness && go1.26 test -c -tags verif -o ../build/harness.test ./corr && rm -f ../build/harness.test)
(cd extract && go1.26 build -o ../build/extract .)
for f in $(cat facts.list 2>/dev/null); do ./build/extract -repo "$REPO" -fact "$f" -out "lean/Interceptor/Gen/$f.lean"; done
python3 genroot.py
(cd lean && lake build driver && (lake build Interceptor || echo 'WARNING: some proof modules do not build; the affected checks will report it'))
echo setup ok

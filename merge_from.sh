#!/bin/sh
# merge_from.sh <builder dir>: copy files a builder ADDED under its copy of /verif (never overwrites).
set -e
src="$1/verif"
rsync -a --ignore-existing --exclude .git --exclude build --exclude out --exclude evidence --exclude 'lean/.lake' \
  --exclude 'lean/Interceptor/Audit' --exclude 'lean/Interceptor/Gen' --exclude 'lean/Main.lean' --exclude 'lean/Interceptor.lean' \
  --exclude 'harness/go.mod' --exclude 'harness/go.sum' --exclude MANIFEST.json --itemize-changes "$src/" /verif/ | grep '^>f' || true
# files that exist on both sides but differ (need a look)
(cd "$src" && find . -type f ! -path './.git/*' ! -path './build/*' ! -path './out/*' ! -path './evidence/*' ! -path './lean/.lake/*' \
  ! -path './lean/Interceptor/Audit/*' ! -path './lean/Interceptor/Gen/*' ! -name MANIFEST.json ! -name go.mod ! -name go.sum ! -name Main.lean ! -path './lean/Interceptor.lean') | while read f; do
  if [ -f "/verif/$f" ] && ! cmp -s "$src/$f" "/verif/$f"; then echo "DIFFERS $f"; fi
done

#!/usr/bin/env python3
"""Regenerates MANIFEST.json from props.json (claimed checks) and the property list."""
import json, os
ROOT = os.path.dirname(os.path.abspath(__file__))
props = {f[:-5]: json.load(open(os.path.join(ROOT, "props", f))) for f in sorted(os.listdir(os.path.join(ROOT, "props"))) if f.endswith(".json")}
ids = [json.loads(l)["id"] for l in open(os.path.join(ROOT, "properties.jsonl"))]
hooks_commits = [l.strip() for l in open(os.path.join(ROOT, "hooks.commits"))] if os.path.exists(os.path.join(ROOT, "hooks.commits")) else []
m = {
 "version": 1,
 "setup_cmd": "./setup.sh",
 "hooks": {
  "guard": "verif",
  "enable": "go1.26 test -c -tags verif (GOFLAGS=-mod=mod GOPROXY=off GOTOOLCHAIN=local); hook files are //go:build verif and add-only",
  "baseline_off_cmd": "cd /repo && GOFLAGS=-mod=mod GOPROXY=off go test -json -vet=off -count=1 -timeout 25m ./...",
  "source_commits": hooks_commits,
  "add_only": True,
 },
 "engines": [
  {"name": "lean-model", "path": "lean/", "serves_properties": [i for i in ids if i in props],
   "kind_free_text": "Lean 4 models, specs and kernel-checked property theorems (Props/Cxx.lean); core-only driver executable"},
  {"name": "go-harness", "path": "harness/corr", "serves_properties": [i for i in ids if i in props],
   "kind_free_text": "Go test binary running the real code in-process (testing/synctest virtual time), op-for-op correspondence with the Lean model"},
  {"name": "translator", "path": "harness/extract", "serves_properties": [i for i in ids if i in props and props[i].get("facts")],
   "kind_free_text": "go/ast fact extractor regenerating Lean data from /repo on every run; closed by decide"},
 ],
 "checks": [],
 "not_applicable": [],
 "notes": "All checks: ./check <id> --tier quick|thorough; replay: ./check replay <file>. See DESIGN.md.",
}
for i in ids:
    if i in props:
        p = props[i]
        m["checks"].append({
         "property_id": i,
         "quick_cmd": f"./check {i} --tier quick",
         "thorough_cmd": f"./check {i} --tier thorough",
         "evidence_file": f"/verif/evidence/{i}.json",
         "replay_cmd_template": "./check replay {path}",
         "engine": "lean-model",
         "level_claimed": {"category": p.get("level", "proof"), "text": p.get("level_text", ""), "design_ref": p.get("design_ref", "DESIGN.md §6 " + i)},
         "level_note": p.get("level_note", ""),
         "technique": p.get("technique", "Lean 4 theorems about a hand-written model + differential correspondence with the Go code"),
        })
    else:
        m["not_applicable"].append({"property_id": i, "reason": "not yet claimed: model and check under construction (see DESIGN.md §6); no other technique is substituted"})
json.dump(m, open(os.path.join(ROOT, "MANIFEST.json"), "w"), indent=1)
print("checks:", len(m["checks"]), "not_applicable:", len(m["not_applicable"]))
